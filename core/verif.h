// Core of the property-based engine: choice source (Src), per-case context (Ctx), and the declarations a
// harness must provide. One harness = one translation unit defining `vf::config()` and `vf::run_case()`.
// The drivers (seeded runner with fork isolation / replay / shrinker, or libFuzzer) live in runner.h / fuzz_main.h.
#pragma once
#include <cmath>
#include <cstdarg>
#include <cstdint>
#include <cstdio>
#include <cstdlib>
#include <cstring>
#include <limits>
#include <map>
#include <set>
#include <string>
#include <vector>

namespace vf
{
    // ---------------------------------------------------------------------------------------------------------
    // Choice source: every decision a case makes is decoded from a byte string. Exhausted input yields zeros,
    // i.e. the smallest choice, which is what makes generic shrinking (delete / zero / lower bytes) work.
    struct Src
    {
        const uint8_t *d;
        size_t n;
        size_t i = 0;
        Src(const uint8_t *data, size_t size) : d(data), n(size)
        {
        }
        uint8_t u8()
        {
            return i < n ? d[i++] : (i++, 0);
        }
        uint64_t be(int k)
        {
            uint64_t v = 0;
            for (int j = 0; j < k; ++j)
                v = (v << 8) | u8();
            return v;
        }
        // uniform-ish integer in [lo, hi] (inclusive); all-zero bytes -> lo
        uint64_t u(uint64_t lo, uint64_t hi)
        {
            if (hi <= lo)
                return lo;
            uint64_t span = hi - lo;
            int k = span < 256 ? 1 : span < 65536 ? 2 : span < 4294967296ull ? 4 : 8;
            uint64_t v = be(k);
            return span == UINT64_MAX ? v : lo + v % (span + 1);
        }
        int64_t i64(int64_t lo, int64_t hi)
        {
            return lo + (int64_t)u(0, (uint64_t)(hi - lo));
        }
        int in(int lo, int hi)
        {
            return (int)i64(lo, hi);
        }
        size_t pick(size_t count)
        {
            return count <= 1 ? 0 : (size_t)u(0, count - 1);
        }
        // true with probability per256/256; zero byte -> false
        bool chance(int per256)
        {
            return (int)u8() >= 256 - per256;
        }
        bool flag()
        {
            return u8() & 1;
        }
        // [0,1], 32 bit resolution, endpoints reachable
        double unit()
        {
            return (double)be(4) / 4294967295.0;
        }
        double real(double lo, double hi)
        {
            return lo + (hi - lo) * unit();
        }
        // log-uniform in [lo,hi], lo>0
        double logreal(double lo, double hi)
        {
            return lo * std::exp(std::log(hi / lo) * unit());
        }
        // weighted pick: weights are small ints; zero byte -> first entry with non-zero weight
        size_t weighted(std::initializer_list<int> w)
        {
            int tot = 0;
            for (int x : w)
                tot += x;
            int r = (int)u(0, tot - 1);
            size_t k = 0;
            for (int x : w)
            {
                if (r < x)
                    return k;
                r -= x;
                ++k;
            }
            return k - 1;
        }
        bool exhausted() const
        {
            return i >= n;
        }
        size_t consumed() const
        {
            return i < n ? i : n;
        }
    };

    inline uint64_t fnv1a(const void *p, size_t n, uint64_t h = 1469598103934665603ull)
    {
        const uint8_t *b = (const uint8_t *)p;
        for (size_t i = 0; i < n; ++i)
        {
            h ^= b[i];
            h *= 1099511628211ull;
        }
        return h;
    }

    // ---------------------------------------------------------------------------------------------------------
    struct Fail
    {
        std::string key;  // stable identifier of the violated oracle clause / call site (used for known findings)
        std::string msg;
    };
    struct Skip  // case abandoned (known finding excluded, or precondition not constructible); never a failure
    {
        std::string why;
    };

    struct Ctx
    {
        const std::set<std::string> *known = nullptr;  // keys of known (unrepaired) findings: excluded, counted
        std::map<std::string, uint64_t> cls;           // class histogram
        std::map<std::string, uint64_t> knownHits;
        std::map<std::string, double> maxStat;  // running maxima of observed quantities (drift visibility)
        bool nontrivial = false;
        bool render = false;
        std::string text;  // human-readable rendering of the case (only filled when render)
        std::string tier = "quick";
        // Liveness channel to the supervising parent (fork-per-case harnesses): number of termination-condition evaluations so
        // far and whether the condition has fired. A child that keeps evaluating is slow, not hung.
        volatile long *progress = nullptr;
        volatile long *fired = nullptr;
        char *ctxBuf = nullptr;  // shared with the supervising parent: names the case (e.g. the planner) if the child hangs or is killed
        void context(const std::string &what)
        {
            if (ctxBuf)
            {
                strncpy(ctxBuf, what.c_str(), 200);
                ctxBuf[200] = 0;
            }
        }

        bool isKnown(const std::string &key) const
        {
            return known && known->count(key);
        }
        [[noreturn]] void fail(const std::string &key, const std::string &msg)
        {
            if (isKnown(key))
            {
                knownHits[key]++;
                throw Skip{"known:" + key};
            }
            throw Fail{key, msg};
        }
        // soft variant: records a known hit and returns true (caller continues), throws Fail if not known
        bool failOrKnown(const std::string &key, const std::string &msg)
        {
            if (isKnown(key))
            {
                knownHits[key]++;
                return true;
            }
            throw Fail{key, msg};
        }
        void count(const std::string &c, uint64_t k = 1)
        {
            cls[c] += k;
        }
        void stat(const std::string &name, double v)
        {
            auto it = maxStat.find(name);
            if (it == maxStat.end())
                maxStat[name] = v;
            else if (v > it->second)
                it->second = v;
        }
        void note(const char *fmt, ...) __attribute__((format(printf, 2, 3)))
        {
            if (!render || text.size() > 6000)
                return;
            char buf[1024];
            va_list ap;
            va_start(ap, fmt);
            vsnprintf(buf, sizeof buf, fmt, ap);
            va_end(ap);
            text += buf;
            static const bool trace = getenv("VF_TRACE") != nullptr;  // replay of a hanging case: show the decoded case as it goes
            if (trace)
            {
                fputs(buf, stderr);
                fflush(stderr);
            }
        }
    };

    inline std::string fmt(const char *f, ...) __attribute__((format(printf, 1, 2)));
    inline std::string fmt(const char *f, ...)
    {
        char buf[2048];
        va_list ap;
        va_start(ap, f);
        vsnprintf(buf, sizeof buf, f, ap);
        va_end(ap);
        return buf;
    }

#define VCHECK(ctx, cond, key, ...)                                                                                    \
    do                                                                                                                 \
    {                                                                                                                  \
        if (!(cond))                                                                                                   \
            (ctx).fail((key), ::vf::fmt(__VA_ARGS__));                                                                 \
    } while (0)

    struct Config
    {
        const char *property;   // "C11"
        size_t maxLen = 512;    // maximum generated case length in bytes
        size_t batch = 2000;    // cases per forked child (1 = fork per case)
        double caseTimeout = 20;  // seconds without progress (no termination-condition evaluation, or no return after it fired) = hang
        double hardTimeout = 0;   // overall seconds per case (0 = 6 x caseTimeout); reaching it while still progressing = slow, inconclusive
        bool leaks = false;     // let LeakSanitizer run at child exit (only meaningful with batch==1)
    };

    // provided by each harness
    Config config();
    void run_case(Src &s, Ctx &c);
    // optional: called once per process before the first case (e.g. silence OMPL logging)
    void process_init();
}  // namespace vf
