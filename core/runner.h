// Seeded driver ("driver A"), replay, confirmation and shrinking. Include exactly once, at the end of a harness TU.
//
//   harness run seed=S cases=N worker=i workers=W out=FILE workdir=DIR [known=k1,k2] [tier=quick|thorough]
//   harness replay FILE [known=k1,k2]            in-process, prints the decoded case; exit 0 pass / 1 fail / 3 skip
//   harness confirm FILE out=FILE workdir=DIR    3x re-execution in fresh processes + shrink + save (fuzzer artifacts)
//
// Cases are executed in forked children (batches, or one per fork) so that a sanitizer abort, crash or hang is
// attributed to exactly one case; a failing case is re-executed 3x in fresh children before it counts, then shrunk.
#pragma once
#include "verif.h"

#include <algorithm>
#include <chrono>
#include <csignal>
#include <cstdlib>
#include <fcntl.h>
#include <fstream>
#include <sstream>
#include <sys/mman.h>
#include <sys/stat.h>
#include <sys/wait.h>
#include <unistd.h>

#ifndef VF_DETECT_LEAKS
#define VF_DETECT_LEAKS 0
#endif

extern "C" const char *__asan_default_options()
{
    return VF_DETECT_LEAKS ? "detect_leaks=1:exitcode=77:allocator_may_return_null=1:handle_abort=1:detect_stack_use_after_return=0" :
                             "detect_leaks=0:exitcode=77:allocator_may_return_null=1:handle_abort=1:detect_stack_use_after_return=0";
}
extern "C" const char *__ubsan_default_options()
{
    return "print_stacktrace=1:exitcode=77";
}
extern "C" const char *__lsan_default_options()
{
    return "exitcode=77:print_suppressions=0";
}
extern "C" const char *__tsan_default_options()
{
    return "exitcode=77:history_size=7:halt_on_error=0:second_deadlock_stack=1";
}

namespace vf
{
#ifndef VF_HAS_PROCESS_INIT
    void process_init()
    {
    }
#endif

    namespace rn
    {
        using Bytes = std::vector<uint8_t>;

        inline uint64_t splitmix(uint64_t &x)
        {
            uint64_t z = (x += 0x9e3779b97f4a7c15ull);
            z = (z ^ (z >> 30)) * 0xbf58476d1ce4e5b9ull;
            z = (z ^ (z >> 27)) * 0x94d049bb133111ebull;
            return z ^ (z >> 31);
        }

        // Case i of a run is a pure function of (seed, property, i).
        inline Bytes genCase(uint64_t seed, const char *prop, uint64_t idx, size_t maxLen)
        {
            uint64_t st = seed * 0x2545F4914F6CDD1Dull ^ fnv1a(prop, strlen(prop)) ^ (idx + 1) * 0xD6E8FEB86659FD93ull;
            splitmix(st);
            auto r = [&]() { return splitmix(st); };
            double f = (double)(r() % 10001) / 10000.0;
            // length: spread over the whole range, biased to medium sizes
            size_t len = (size_t)(8 + (maxLen - 8) * (0.15 + 0.85 * f * f));
            if (r() % 16 == 0)
                len = 8 + r() % 56;
            if (len > maxLen)
                len = maxLen;
            Bytes b(len);
            int style = (int)(r() % 8);
            size_t i = 0;
            switch (style)
            {
                default:
                    for (auto &x : b)
                        x = (uint8_t)r();
                    break;
                case 3:
                    for (auto &x : b)
                        x = (uint8_t)(r() & 0x1F);
                    break;
                case 4:
                case 6:
                    while (i < len)
                    {
                        size_t bl = 1 + r() % 8;
                        int kind = (int)(r() % (style == 4 ? 4 : 5));
                        uint8_t same = (uint8_t)r();
                        for (size_t j = 0; j < bl && i < len; ++j, ++i)
                            b[i] = kind == 0 ? 0x00 : kind == 1 ? 0xFF : kind == 4 ? same : (uint8_t)r();
                    }
                    break;
                case 5:
                {
                    size_t bl = 1 + r() % 16;
                    Bytes blk(bl);
                    for (auto &x : blk)
                        x = (uint8_t)r();
                    for (; i < len; ++i)
                        b[i] = (r() % 8 == 0) ? (uint8_t)r() : blk[i % bl];
                    break;
                }
                case 7:
                    for (; i < len; ++i)
                        b[i] = i < 16 ? (uint8_t)r() : (uint8_t)(r() & 0x0F);
                    break;
            }
            return b;
        }

        inline std::string esc(const std::string &s)
        {
            std::string o;
            for (unsigned char ch : s)
            {
                if (ch == '\\')
                    o += "\\\\";
                else if (ch == '\n')
                    o += "\\n";
                else if (ch == '\r')
                    o += "\\r";
                else
                    o += (char)ch;
            }
            return o;
        }
        inline std::string unesc(const std::string &s)
        {
            std::string o;
            for (size_t i = 0; i < s.size(); ++i)
            {
                if (s[i] == '\\' && i + 1 < s.size())
                {
                    ++i;
                    o += s[i] == 'n' ? '\n' : s[i] == 'r' ? '\r' : s[i];
                }
                else
                    o += s[i];
            }
            return o;
        }
        inline std::string jsonStr(const std::string &s)
        {
            std::string o = "\"";
            for (unsigned char ch : s)
            {
                if (ch == '"')
                    o += "\\\"";
                else if (ch == '\\')
                    o += "\\\\";
                else if (ch == '\n')
                    o += "\\n";
                else if (ch == '\t')
                    o += "\\t";
                else if (ch < 0x20 || ch >= 0x7f)
                {
                    char b[8];
                    snprintf(b, sizeof b, "\\u%04x", ch);
                    o += b;
                }
                else
                    o += (char)ch;
            }
            return o + "\"";
        }
        inline std::string hex(const Bytes &b)
        {
            static const char *d = "0123456789abcdef";
            std::string o;
            for (uint8_t x : b)
            {
                o += d[x >> 4];
                o += d[x & 15];
            }
            return o;
        }
        inline double now()
        {
            return std::chrono::duration<double>(std::chrono::steady_clock::now().time_since_epoch()).count();
        }
        inline std::string slurp(const std::string &p, size_t cap = 1 << 20)
        {
            std::ifstream f(p, std::ios::binary);
            std::string s((std::istreambuf_iterator<char>(f)), std::istreambuf_iterator<char>());
            if (s.size() > cap)
                s = s.substr(0, cap / 2) + "\n...[cut]...\n" + s.substr(s.size() - cap / 2);
            return s;
        }
        inline Bytes readBytes(const std::string &p)
        {
            std::ifstream f(p, std::ios::binary);
            return Bytes((std::istreambuf_iterator<char>(f)), std::istreambuf_iterator<char>());
        }

        enum Status
        {
            OK = 0,
            FAIL = 1,
            SKIP = 2,
            CRASH = 3,
            HANG = 4,
            SLOW = 5  // overall budget exhausted while the case was still making progress: inconclusive, never a violation
        };
        struct Outcome
        {
            Status st = OK;
            std::string key, msg, text;
            size_t consumed = 0;
            bool nontrivial = false;
            uint64_t digest = 0;
            std::map<std::string, uint64_t> cls, knownHits;
            std::map<std::string, double> maxStat;
        };

        struct Agg
        {
            uint64_t evaluations = 0, skipped = 0, failures = 0, flaky = 0, hangsInconclusive = 0;
            std::map<std::string, uint64_t> cls, knownHits;
            std::map<std::string, double> maxStat;
            std::vector<uint64_t> digests;
            std::vector<std::string> samples;
            template <class C>
            void merge(const C &c)
            {
                for (auto &kv : c.cls)
                    cls[kv.first] += kv.second;
                for (auto &kv : c.knownHits)
                    knownHits[kv.first] += kv.second;
                for (auto &kv : c.maxStat)
                {
                    auto it = maxStat.find(kv.first);
                    if (it == maxStat.end() || kv.second > it->second)
                        maxStat[kv.first] = kv.second;
                }
            }
        };

        inline char *contextPage()
        {
            static char *page = (char *)mmap(nullptr, 4096, PROT_READ | PROT_WRITE, MAP_SHARED | MAP_ANONYMOUS, -1, 0);
            return page;
        }
        struct Settings
        {
            std::set<std::string> known;
            std::string tier = "quick";
            std::string workdir = ".";
            std::string tag = "w0";
            std::string filePrefix;  // distinguishes replay files of a companion harness of the same property
        };

        // In-process execution of one case. Exceptions escaping run_case that are not Fail/Skip are failures too:
        // a harness must catch what the contract allows.
        inline Outcome execInProcess(const Bytes &b, const Settings &st, bool render, Ctx *keep = nullptr)
        {
            Outcome o;
            Ctx c;
            c.known = &st.known;
            c.render = render;
            c.tier = st.tier;
            c.ctxBuf = contextPage();
            c.progress = (volatile long *)(contextPage() + 512);
            c.fired = (volatile long *)(contextPage() + 520);
            Src s(b.data(), b.size());
            try
            {
                run_case(s, c);
                o.st = OK;
            }
            catch (const Fail &f)
            {
                o.st = FAIL;
                o.key = f.key;
                o.msg = f.msg;
            }
            catch (const Skip &sk)
            {
                o.st = SKIP;
                o.msg = sk.why;
            }
            catch (const std::exception &e)
            {
                o.st = FAIL;
                o.key = "uncaught-exception";
                o.msg = e.what();
            }
            o.consumed = s.consumed();
            o.nontrivial = c.nontrivial;
            o.digest = fnv1a(b.data(), o.consumed);
            o.text = c.text;
            // generator health: a case whose decoding ran past its bytes got the smallest choice for everything after that point
            if (o.st == OK)
                c.cls[s.i > s.n ? "input:bytes-ran-out" : "input:bytes-sufficient"]++;
            o.cls = c.cls;
            o.knownHits = c.knownHits;
            o.maxStat = c.maxStat;
            if (keep)
                *keep = c;
            return o;
        }

        // Turn a sanitizer / crash log into a stable key: kind + first frame inside /repo/src.
        inline void crashKey(const std::string &err, int wstatus, Outcome &o)
        {
            std::string kind;
            size_t p;
            if ((p = err.find("ERROR: AddressSanitizer: ")) != std::string::npos)
            {
                size_t q = err.find_first_of(" \n", p + 25);
                kind = "asan-" + err.substr(p + 25, q - (p + 25));
            }
            else if ((p = err.find("runtime error: ")) != std::string::npos)
            {
                std::string rest = err.substr(p + 15, 60);
                // first three words of the message that are not numbers / addresses (those vary from run to run)
                std::string words, cur;
                int nw = 0;
                rest += ' ';
                for (char ch : rest)
                {
                    if (ch == '\n' || ch == ' ')
                    {
                        if (!cur.empty() && !isdigit((unsigned char)cur[0]) && cur[0] != '-' && cur[0] != '+')
                        {
                            words += (nw ? "-" : "") + cur;
                            if (++nw == 3)
                                break;
                        }
                        cur.clear();
                        if (ch == '\n')
                            break;
                    }
                    else if (isalnum((unsigned char)ch) || ch == '-' || ch == '+')
                        cur += ch;
                }
                kind = "ubsan-" + words;
                // the reporting location itself
                size_t ls = err.rfind('\n', p);
                std::string loc = err.substr(ls == std::string::npos ? 0 : ls + 1, p - (ls == std::string::npos ? 0 : ls + 1));
                size_t sl = loc.rfind('/');
                size_t co = loc.find(':', sl == std::string::npos ? 0 : sl);
                if (co != std::string::npos)
                    kind += "@" + loc.substr(sl == std::string::npos ? 0 : sl + 1, co - (sl == std::string::npos ? 0 : sl + 1));
            }
            else if (err.find("LeakSanitizer: detected memory leaks") != std::string::npos)
                kind = "leak";
            else if (err.find("ThreadSanitizer: data race") != std::string::npos)
                kind = "tsan-data-race";
            else if (err.find("ThreadSanitizer:") != std::string::npos)
                kind = "tsan-other";
            else if (WIFSIGNALED(wstatus))
                kind = "signal-" + std::to_string(WTERMSIG(wstatus));
            else
                kind = "exit-" + std::to_string(WIFEXITED(wstatus) ? WEXITSTATUS(wstatus) : -1);
            // first stack frame in the library sources
            std::string frame;
            size_t pos = 0;
            while ((pos = err.find(" in ", pos)) != std::string::npos)
            {
                size_t eol = err.find('\n', pos);
                std::string line = err.substr(pos + 4, (eol == std::string::npos ? err.size() : eol) - pos - 4);
                size_t rp = line.find("/repo/src/ompl/");
                // generic helpers are skipped so that the key names the interesting call site: the as<>() cast helper, and - for
                // leak reports - the state/motion allocation functions themselves (the caller is what leaks)
                bool generic = line.compare(0, 3, "as<") == 0 || line.compare(0, 3, "as ") == 0;
                if (kind == "leak")
                    for (const char *g : {"allocState", "cloneState", "allocStateComponents", "::Motion::Motion", "allocControl", "cloneControl", "::State::State",
                                          "allocDefaultStateSampler", "allocStateSampler", "::Vertex::Vertex", "Configuration::Configuration"})
                        if (line.substr(0, line.find(" /repo")).find(g) != std::string::npos)
                            generic = true;
                if (rp != std::string::npos && !generic)
                {
                    std::string fn = line.substr(0, line.find_first_of("(<", 0));
                    while (!fn.empty() && fn.back() == ' ')
                        fn.pop_back();
                    std::string file = line.substr(rp + 15);
                    file = file.substr(0, file.find(':'));
                    size_t sl = file.rfind('/');
                    if (sl != std::string::npos)
                        file = file.substr(sl + 1);
                    frame = file + "/" + fn;
                    break;
                }
                pos += 4;
            }
            if (frame.empty() && kind.compare(0, 4, "tsan") == 0)
            {
                // ThreadSanitizer frames have no " in ": "#0 function /repo/src/ompl/file.cpp:line:col (binary+0x...)"
                size_t q = 0;
                while ((q = err.find("/repo/src/ompl/", q)) != std::string::npos)
                {
                    size_t ls = err.rfind('\n', q);
                    std::string line = err.substr(ls == std::string::npos ? 0 : ls + 1, q - (ls == std::string::npos ? 0 : ls + 1));
                    size_t hash = line.find('#');
                    size_t sp = hash == std::string::npos ? std::string::npos : line.find(' ', hash);
                    if (sp != std::string::npos)
                    {
                        std::string fn = line.substr(sp + 1);
                        fn = fn.substr(0, fn.find_first_of("(<"));
                        while (!fn.empty() && fn.back() == ' ')
                            fn.pop_back();
                        std::string file = err.substr(q + 15);
                        file = file.substr(0, file.find(':'));
                        size_t sl = file.rfind('/');
                        if (sl != std::string::npos)
                            file = file.substr(sl + 1);
                        if (!fn.empty())
                        {
                            frame = file + "/" + fn;
                            break;
                        }
                    }
                    q += 15;
                }
            }
            o.key = "san/" + kind + (frame.empty() ? "" : "/" + frame);
            o.msg = err.size() > 3000 ? err.substr(0, 3000) : err;
        }

        inline void writeOutcome(const std::string &path, const Outcome &o)
        {
            FILE *f = fopen(path.c_str(), "w");
            if (!f)
                return;
            fprintf(f, "O %d %zu %d %llx\nK %s\nM %s\nT %s\n", (int)o.st, o.consumed, o.nontrivial ? 1 : 0,
                    (unsigned long long)o.digest, esc(o.key).c_str(), esc(o.msg).c_str(), esc(o.text).c_str());
            for (auto &kv : o.cls)
                fprintf(f, "C %llu %s\n", (unsigned long long)kv.second, kv.first.c_str());
            for (auto &kv : o.knownHits)
                fprintf(f, "H %llu %s\n", (unsigned long long)kv.second, kv.first.c_str());
            for (auto &kv : o.maxStat)
                fprintf(f, "X %.17g %s\n", kv.second, kv.first.c_str());
            fprintf(f, "D\n");
            fclose(f);
        }
        inline bool readOutcome(const std::string &path, Outcome &o)
        {
            std::ifstream f(path);
            std::string line;
            bool done = false;
            while (std::getline(f, line))
            {
                if (line.size() < 1)
                    continue;
                if (line[0] == 'O')
                {
                    int st, nt;
                    size_t cons;
                    unsigned long long dg;
                    if (sscanf(line.c_str(), "O %d %zu %d %llx", &st, &cons, &nt, &dg) == 4)
                    {
                        o.st = (Status)st;
                        o.consumed = cons;
                        o.nontrivial = nt;
                        o.digest = dg;
                    }
                }
                else if (line[0] == 'K')
                    o.key = unesc(line.substr(line.size() > 2 ? 2 : line.size()));
                else if (line[0] == 'M')
                    o.msg = unesc(line.substr(line.size() > 2 ? 2 : line.size()));
                else if (line[0] == 'T')
                    o.text = unesc(line.substr(line.size() > 2 ? 2 : line.size()));
                else if (line[0] == 'C' || line[0] == 'H')
                {
                    std::string rest = line.substr(2);
                    size_t sp = rest.find(' ');
                    (line[0] == 'C' ? o.cls : o.knownHits)[rest.substr(sp + 1)] += strtoull(rest.c_str(), nullptr, 10);
                }
                else if (line[0] == 'X')
                {
                    std::string rest = line.substr(2);
                    size_t sp = rest.find(' ');
                    o.maxStat[rest.substr(sp + 1)] = strtod(rest.c_str(), nullptr);
                }
                else if (line[0] == 'D')
                    done = true;
            }
            return done;
        }

        // Watchdog for fork-per-case children: kills on stall (no progress for `stall` seconds, or no return `stall` seconds
        // after the termination condition fired) -> hang; kills at `hard` seconds while still progressing -> slow.
        inline int waitWithProgress(pid_t pid, double stall, double hard, bool &hung, bool &slow)
        {
            volatile long *progress = (volatile long *)(contextPage() + 512);
            volatile long *fired = (volatile long *)(contextPage() + 520);
            double t0 = now(), lastChange = t0, firedAt = 0;
            long last = *progress;
            int wst = 0;
            hung = slow = false;
            useconds_t nap = 200;
            for (;;)
            {
                pid_t r = waitpid(pid, &wst, WNOHANG);
                if (r == pid)
                    return wst;
                if (r < 0)
                    return -1;
                double t = now();
                if (*fired && firedAt == 0)
                    firedAt = t;
                if (*progress != last && !*fired)
                {
                    last = *progress;
                    lastChange = t;
                }
                bool stalled = *fired ? (t - firedAt > stall) : (t - lastChange > stall);
                if (stalled || t - t0 > hard)
                {
                    hung = stalled;
                    slow = !stalled;
                    kill(pid, SIGKILL);
                    waitpid(pid, &wst, 0);
                    return wst;
                }
                usleep(nap);
                if (nap < 20000)
                    nap *= 2;
            }
        }

        inline int waitWithTimeout(pid_t pid, double timeout, bool &timedOut)
        {
            double t0 = now();
            int wst = 0;
            timedOut = false;
            useconds_t nap = 200;
            for (;;)
            {
                pid_t r = waitpid(pid, &wst, WNOHANG);
                if (r == pid)
                    return wst;
                if (r < 0)
                    return -1;
                if (now() - t0 > timeout)
                {
                    timedOut = true;
                    kill(pid, SIGKILL);
                    waitpid(pid, &wst, 0);
                    return wst;
                }
                usleep(nap);
                if (nap < 20000)
                    nap *= 2;
            }
        }

        // One case in a fresh forked child. The parent never runs harness/library code itself.
        inline Outcome runSingle(const Bytes &b, const Settings &st, bool render, double timeout)
        {
            std::string res = st.workdir + "/" + st.tag + ".single.res";
            std::string err = st.workdir + "/" + st.tag + ".single.err";
            unlink(res.c_str());
            fflush(nullptr);
            contextPage()[0] = 0;
            *(volatile long *)(contextPage() + 512) = 0;
            *(volatile long *)(contextPage() + 520) = 0;
            pid_t pid = fork();
            if (pid == 0)
            {
                int fd = open(err.c_str(), O_WRONLY | O_CREAT | O_TRUNC, 0644);
                if (fd >= 0)
                {
                    dup2(fd, 2);
                    close(fd);
                }
                Outcome o = execInProcess(b, st, render);
                writeOutcome(res, o);
                fflush(nullptr);
                if (VF_DETECT_LEAKS)
                    exit(0);  // lets LeakSanitizer run; a leak overrides the exit code with 77
                _exit(0);
            }
            bool to = false, slow = false;
            Config cfgw = config();
            int wst = waitWithProgress(pid, timeout, cfgw.hardTimeout > 0 ? cfgw.hardTimeout : 6 * timeout, to, slow);
            Outcome o;
            bool have = readOutcome(res, o);
            if (slow)
            {
                o = Outcome();
                o.st = SLOW;
                o.key = std::string("slow") + (contextPage()[0] ? std::string("/") + contextPage() : "");
                o.msg = "overall time budget exhausted while the case was still evaluating its termination condition (inconclusive)";
                return o;
            }
            if (to)
            {
                o = Outcome();
                o.st = HANG;
                o.key = std::string("hang") + (contextPage()[0] ? std::string("/") + contextPage() : "");
                o.msg = "no return within watchdog";
                if (st.known.count(o.key))
                {
                    o.st = SKIP;
                    o.knownHits[o.key]++;
                    o.msg = "known:" + o.key;
                }
                return o;
            }
            bool cleanExit = WIFEXITED(wst) && WEXITSTATUS(wst) == 0;
            if (have && cleanExit)
                return o;
            if (have && o.st == FAIL)
                return o;  // the oracle verdict came first; a dirty exit afterwards adds nothing
            Outcome c;
            c.st = CRASH;
            c.consumed = have ? o.consumed : b.size();
            c.text = have ? o.text : "";
            crashKey(slurp(err), wst, c);
            if (c.key.compare(0, 11, "san/signal-") == 0 && contextPage()[0])
                c.key += std::string("/") + contextPage();
            if (st.known.count(c.key))
            {
                c.st = SKIP;
                c.knownHits[c.key]++;
                c.msg = "known:" + c.key;
            }
            return c;
        }

        inline bool sameFailure(const Outcome &a, const Outcome &b)
        {
            return (b.st == FAIL || b.st == CRASH || b.st == HANG) && a.key == b.key;
        }

        // Generic byte-level shrinking; a candidate is kept only when the *same key* still fails (fresh child each).
        inline Bytes shrink(Bytes best, const Outcome &orig, const Settings &st, double timeout, int maxAttempts, double maxSeconds,
                            int &attempts)
        {
            double t0 = now();
            attempts = 0;
            auto tryCand = [&](const Bytes &cand) -> bool
            {
                if (cand.size() >= best.size() && cand == best)
                    return false;
                if (attempts >= maxAttempts || now() - t0 > maxSeconds)
                    return false;
                ++attempts;
                Outcome o = runSingle(cand, st, false, timeout);
                return sameFailure(orig, o);
            };
            if (orig.consumed && orig.consumed < best.size())
            {
                Bytes c(best.begin(), best.begin() + orig.consumed);
                if (tryCand(c))
                    best = c;
            }
            bool improved = true;
            while (improved && attempts < maxAttempts && now() - t0 < maxSeconds)
            {
                improved = false;
                // truncate
                for (size_t len = best.size() / 2; len >= 1 && len < best.size(); len = len / 2)
                {
                    Bytes c(best.begin(), best.begin() + len);
                    if (tryCand(c))
                    {
                        best = c;
                        improved = true;
                    }
                    else
                        break;
                }
                // delete blocks
                for (size_t bs = std::max<size_t>(best.size() / 4, 1); bs >= 1; bs /= 2)
                {
                    for (size_t pos = best.size() > bs ? best.size() - bs : 0;; pos = pos >= bs ? pos - bs : 0)
                    {
                        if (pos + bs <= best.size())
                        {
                            Bytes c(best);
                            c.erase(c.begin() + pos, c.begin() + pos + bs);
                            if (tryCand(c))
                            {
                                best = c;
                                improved = true;
                            }
                        }
                        if (pos == 0)
                            break;
                    }
                    if (bs == 1)
                        break;
                }
                // zero blocks
                for (size_t bs = std::max<size_t>(best.size() / 4, 1); bs >= 1; bs /= 2)
                {
                    for (size_t pos = 0; pos + bs <= best.size(); pos += bs)
                    {
                        bool allz = true;
                        for (size_t j = pos; j < pos + bs; ++j)
                            allz &= best[j] == 0;
                        if (allz)
                            continue;
                        Bytes c(best);
                        std::fill(c.begin() + pos, c.begin() + pos + bs, 0);
                        if (tryCand(c))
                        {
                            best = c;
                            improved = true;
                        }
                    }
                    if (bs == 1)
                        break;
                }
                // lower single bytes
                for (size_t i = 0; i < best.size(); ++i)
                {
                    if (!best[i])
                        continue;
                    for (uint8_t v : {(uint8_t)(best[i] / 2), (uint8_t)(best[i] - 1)})
                    {
                        if (v >= best[i])
                            continue;
                        Bytes c(best);
                        c[i] = v;
                        if (tryCand(c))
                        {
                            best = c;
                            improved = true;
                            break;
                        }
                    }
                }
            }
            return best;
        }

        struct Finding
        {
            std::string key, msg, replay, text;
            size_t origLen = 0, shrunkLen = 0;
            int shrinkAttempts = 0;
            uint64_t caseIndex = 0;
            bool confirmed = false;
        };

        inline std::string sanitizeName(const std::string &k)
        {
            std::string o;
            for (char ch : k)
                o += (isalnum((unsigned char)ch) || ch == '-' || ch == '_') ? ch : '_';
            if (o.size() > 60)
                o = o.substr(0, 60);
            return o;
        }

        // Confirm (3 fresh re-executions), shrink and save. Returns false when the failure does not reproduce.
        inline bool processFailure(const Bytes &b, const Outcome &first, const Settings &st, double timeout, uint64_t idx, Finding &fd)
        {
            for (int rep = 0; rep < 3; ++rep)
            {
                Outcome o = runSingle(b, st, false, timeout);
                if (!sameFailure(first, o))
                    return false;
            }
            fd.key = first.key;
            fd.caseIndex = idx;
            fd.origLen = b.size();
            fd.confirmed = true;
            bool cheap = timeout <= 30;
            // a hanging case costs a full watchdog period per attempt: keep it as it is
            Bytes sm = first.st == HANG ? b : shrink(b, first, st, timeout, cheap ? 600 : 60, cheap ? 60 : 90, fd.shrinkAttempts);
            fd.shrunkLen = sm.size();
            Outcome fin = runSingle(sm, st, true, timeout);
            if (!sameFailure(first, fin))
            {
                sm = b;
                fin = runSingle(sm, st, true, timeout);
            }
            fd.msg = fin.msg.empty() ? first.msg : fin.msg;
            fd.text = fin.text;
            std::string dir = std::string("/verif/replays/") + config().property;
            mkdir("/verif/replays", 0755);
            mkdir(dir.c_str(), 0755);
            char hb[32];
            snprintf(hb, sizeof hb, "%016llx", (unsigned long long)fnv1a(sm.data(), sm.size()));
            std::string base = dir + "/" + st.filePrefix + sanitizeName(first.key) + "-" + hb;
            {
                std::ofstream f(base + ".case", std::ios::binary);
                f.write((const char *)sm.data(), sm.size());
            }
            {
                std::ofstream f(base + ".txt");
                f << "property: " << config().property << "\nkey: " << first.key << "\nmessage: " << fd.msg << "\nbytes(" << sm.size()
                  << "): " << hex(sm) << "\n--- decoded case ---\n"
                  << fin.text << "\n";
            }
            fd.replay = base + ".case";
            return true;
        }

        struct Args
        {
            std::map<std::string, std::string> kv;
            std::vector<std::string> pos;
            std::string get(const std::string &k, const std::string &d = "") const
            {
                auto it = kv.find(k);
                return it == kv.end() ? d : it->second;
            }
        };
        inline Args parseArgs(int argc, char **argv)
        {
            Args a;
            for (int i = 1; i < argc; ++i)
            {
                std::string s = argv[i];
                size_t e = s.find('=');
                if (e == std::string::npos || s[0] == '/' || s[0] == '.')
                    a.pos.push_back(s);
                else
                    a.kv[s.substr(0, e)] = s.substr(e + 1);
            }
            return a;
        }
        inline std::set<std::string> splitSet(const std::string &s)
        {
            std::set<std::string> r;
            std::stringstream ss(s);
            std::string t;
            while (std::getline(ss, t, ','))
                if (!t.empty())
                    r.insert(t);
            return r;
        }

        inline void writeJson(const std::string &path, const Agg &a, const std::vector<Finding> &fs, double wall, bool truncated,
                              const std::string &digestFile)
        {
            std::ofstream f(path);
            f << "{\n \"evaluations\": " << a.evaluations << ",\n \"skipped\": " << a.skipped << ",\n \"flaky_unreproduced\": " << a.flaky
              << ",\n \"hangs_inconclusive\": " << a.hangsInconclusive << ",\n \"nontrivial\": " << a.digests.size()
              << ",\n \"truncated\": " << (truncated ? "true" : "false") << ",\n \"wall_s\": " << wall << ",\n \"digest_file\": "
              << jsonStr(digestFile) << ",\n \"classes\": {";
            bool first = true;
            for (auto &kv : a.cls)
            {
                f << (first ? "" : ", ") << jsonStr(kv.first) << ": " << kv.second;
                first = false;
            }
            f << "},\n \"known_hits\": {";
            first = true;
            for (auto &kv : a.knownHits)
            {
                f << (first ? "" : ", ") << jsonStr(kv.first) << ": " << kv.second;
                first = false;
            }
            f << "},\n \"max_stats\": {";
            first = true;
            for (auto &kv : a.maxStat)
            {
                char nb[64];
                snprintf(nb, sizeof nb, "%.9g", std::isfinite(kv.second) ? kv.second : -1.0);
                f << (first ? "" : ", ") << jsonStr(kv.first) << ": " << nb;
                first = false;
            }
            f << "},\n \"samples\": [";
            first = true;
            for (auto &s : a.samples)
            {
                f << (first ? "" : ", ") << jsonStr(s);
                first = false;
            }
            f << "],\n \"findings\": [";
            first = true;
            for (auto &x : fs)
            {
                f << (first ? "" : ", ") << "{\"key\": " << jsonStr(x.key) << ", \"msg\": " << jsonStr(x.msg.substr(0, 2500))
                  << ", \"replay\": " << jsonStr(x.replay) << ", \"case_index\": " << x.caseIndex << ", \"orig_len\": " << x.origLen
                  << ", \"shrunk_len\": " << x.shrunkLen << ", \"shrink_attempts\": " << x.shrinkAttempts << "}";
                first = false;
            }
            f << "]\n}\n";
        }

        // Batch child: runs cases [from, to) of this worker's index sequence, writes a line-based result file.
        inline void batchChild(const std::vector<uint64_t> &idxs, size_t from, size_t to, uint64_t seed, const Settings &st,
                               const std::string &resPath, const std::string &errPath, volatile uint64_t *progress, size_t maxLen,
                               bool renderEarly)
        {
            int fd = open(errPath.c_str(), O_WRONLY | O_CREAT | O_TRUNC, 0644);
            if (fd >= 0)
            {
                dup2(fd, 2);
                close(fd);
            }
            FILE *f = fopen(resPath.c_str(), "w");
            Agg a;
            int samples = 0;
            for (size_t k = from; k < to; ++k)
            {
                progress[0] = k;
                progress[1] = 1;
                Bytes b = genCase(seed, config().property, idxs[k], maxLen);
                Ctx c;
                bool render = renderEarly && samples < 3 && (k - from) < 400;
                Outcome o = execInProcess(b, st, render, &c);
                a.evaluations++;
                a.merge(c);
                if (o.st == SKIP)
                    a.skipped++;
                if (o.st == FAIL)
                {
                    fprintf(f, "F %zu %s\t%s\n", k, esc(o.key).c_str(), esc(o.msg).c_str());
                    fflush(f);
                }
                else if (o.nontrivial)
                {
                    fprintf(f, "N %llx\n", (unsigned long long)o.digest);
                    if (render && !o.text.empty())
                    {
                        fprintf(f, "S %s\n", esc(o.text).c_str());
                        ++samples;
                    }
                }
                progress[1] = 2;
            }
            fprintf(f, "E %llu %llu\n", (unsigned long long)a.evaluations, (unsigned long long)a.skipped);
            for (auto &kv : a.cls)
                fprintf(f, "C %llu %s\n", (unsigned long long)kv.second, kv.first.c_str());
            for (auto &kv : a.knownHits)
                fprintf(f, "K %llu %s\n", (unsigned long long)kv.second, kv.first.c_str());
            for (auto &kv : a.maxStat)
                fprintf(f, "X %.17g %s\n", kv.second, kv.first.c_str());
            fprintf(f, "D\n");
            fclose(f);
            fflush(nullptr);
            _exit(0);
        }

        inline int mainRun(const Args &args)
        {
            Config cfg = config();
            Settings st;
            st.known = splitSet(args.get("known"));
            st.tier = args.get("tier", "quick");
            st.workdir = args.get("workdir", "/verif/.build/work");
            uint64_t seed = strtoull(args.get("seed", "1").c_str(), nullptr, 10);
            uint64_t cases = strtoull(args.get("cases", "1000").c_str(), nullptr, 10);
            uint64_t worker = strtoull(args.get("worker", "0").c_str(), nullptr, 10);
            uint64_t workers = strtoull(args.get("workers", "1").c_str(), nullptr, 10);
            size_t maxLen = strtoull(args.get("maxlen", std::to_string(cfg.maxLen)).c_str(), nullptr, 10);
            std::string out = args.get("out", st.workdir + "/out.json");
            st.tag = std::string(cfg.property) + args.get("fileprefix") + ".w" + std::to_string(worker);
            st.filePrefix = args.get("fileprefix");
            double t0 = now();

            std::vector<uint64_t> idxs;
            for (uint64_t i = worker; i < cases; i += workers)
                idxs.push_back(i);

            volatile uint64_t *progress =
                (volatile uint64_t *)mmap(nullptr, 4096, PROT_READ | PROT_WRITE, MAP_SHARED | MAP_ANONYMOUS, -1, 0);
            Agg agg;
            std::vector<Finding> findings;
            std::set<std::string> seenKeys;
            std::map<std::string, uint64_t> repeatFailures;
            bool truncated = false;
            std::string res = st.workdir + "/" + st.tag + ".batch.res";
            std::string err = st.workdir + "/" + st.tag + ".batch.err";

            auto handleFailure = [&](size_t k, Outcome first)
            {
                if (seenKeys.count(first.key))
                {
                    repeatFailures[first.key]++;
                    return;
                }
                Bytes b = genCase(seed, cfg.property, idxs[k], maxLen);
                if (first.st == HANG)
                {
                    // a hang is inconclusive unless it reproduces 3x
                    int again = 0;
                    for (int r = 0; r < 3; ++r)
                        again += runSingle(b, st, false, cfg.caseTimeout).st == HANG;
                    if (again < 3)
                    {
                        agg.hangsInconclusive++;
                        return;
                    }
                }
                Finding fd;
                if (processFailure(b, first, st, cfg.caseTimeout, idxs[k], fd))
                {
                    seenKeys.insert(first.key);
                    findings.push_back(fd);
                }
                else
                {
                    agg.flaky++;
                    mkdir("/verif/replays", 0755);
                    std::string dir = std::string("/verif/replays/") + cfg.property;
                    mkdir(dir.c_str(), 0755);
                    std::ofstream f(dir + "/flaky-" + std::to_string(idxs[k]) + ".case", std::ios::binary);
                    f.write((const char *)b.data(), b.size());
                    std::ofstream g(dir + "/flaky-" + std::to_string(idxs[k]) + ".txt");
                    g << "key: " << first.key << "\nmsg: " << first.msg << "\n";
                }
            };

            size_t pos = 0;
            bool firstBatch = true;
            while (pos < idxs.size() && findings.size() < 4)
            {
                size_t to = std::min(idxs.size(), pos + cfg.batch);
                if (cfg.batch == 1)
                {
                    Bytes b = genCase(seed, cfg.property, idxs[pos], maxLen);
                    bool render = agg.samples.size() < 4;
                    Outcome o = runSingle(b, st, render, cfg.caseTimeout);
                    agg.evaluations++;
                    agg.merge(o);
                    if (o.st == SLOW)
                    {
                        agg.hangsInconclusive++;
                        agg.cls["inconclusive:" + o.key]++;
                    }
                    else if (o.st == OK || o.st == SKIP)
                    {
                        if (o.st == SKIP)
                            agg.skipped++;
                        if (o.nontrivial)
                        {
                            agg.digests.push_back(o.digest);
                            if (render && !o.text.empty())
                                agg.samples.push_back(o.text);
                        }
                    }
                    else
                        handleFailure(pos, o);
                    pos = to;
                    continue;
                }
                unlink(res.c_str());
                progress[0] = pos;
                progress[1] = 0;
                fflush(nullptr);
                pid_t pid = fork();
                if (pid == 0)
                    batchChild(idxs, pos, to, seed, st, res, err, progress, maxLen, firstBatch);
                bool timedOut = false;
                int wst = waitWithTimeout(pid, cfg.caseTimeout * 4 + (double)(to - pos) * 0.05 + 60, timedOut);
                // parse what the child managed to write
                bool done = false;
                {
                    std::ifstream f(res);
                    std::string line;
                    std::vector<std::pair<size_t, Outcome>> fails;
                    while (std::getline(f, line))
                    {
                        if (line.empty())
                            continue;
                        char t = line[0];
                        std::string rest = line.size() > 2 ? line.substr(2) : "";
                        if (t == 'N')
                            agg.digests.push_back(strtoull(rest.c_str(), nullptr, 16));
                        else if (t == 'S')
                        {
                            if (agg.samples.size() < 6)
                                agg.samples.push_back(unesc(rest));
                        }
                        else if (t == 'F')
                        {
                            size_t sp = rest.find(' ');
                            size_t tb = rest.find('\t');
                            Outcome o;
                            o.st = FAIL;
                            o.key = unesc(rest.substr(sp + 1, tb - sp - 1));
                            o.msg = unesc(rest.substr(tb + 1));
                            fails.push_back({(size_t)strtoull(rest.c_str(), nullptr, 10), o});
                        }
                        else if (t == 'E')
                        {
                            unsigned long long e = 0, s = 0;
                            sscanf(rest.c_str(), "%llu %llu", &e, &s);
                            agg.evaluations += e;
                            agg.skipped += s;
                        }
                        else if (t == 'C' || t == 'K')
                        {
                            size_t sp = rest.find(' ');
                            uint64_t n = strtoull(rest.c_str(), nullptr, 10);
                            (t == 'C' ? agg.cls : agg.knownHits)[rest.substr(sp + 1)] += n;
                        }
                        else if (t == 'X')
                        {
                            size_t sp = rest.find(' ');
                            double v = strtod(rest.c_str(), nullptr);
                            std::string name = rest.substr(sp + 1);
                            auto it = agg.maxStat.find(name);
                            if (it == agg.maxStat.end() || v > it->second)
                                agg.maxStat[name] = v;
                        }
                        else if (t == 'D')
                            done = true;
                    }
                    for (auto &fo : fails)
                    {
                        agg.failures++;
                        handleFailure(fo.first, fo.second);
                    }
                }
                firstBatch = false;
                if (done && WIFEXITED(wst) && WEXITSTATUS(wst) == 0)
                {
                    pos = to;
                    continue;
                }
                // the child died: the shared progress page names the culprit; re-run it alone for the verdict
                size_t culprit = (size_t)progress[0];
                if (culprit < pos || culprit >= to)
                    culprit = pos;
                if (!done)
                    agg.evaluations += culprit - pos;  // cases before the culprit ran fine (their class counts are lost)
                Bytes b = genCase(seed, cfg.property, idxs[culprit], maxLen);
                Outcome o = runSingle(b, st, false, cfg.caseTimeout);
                agg.evaluations++;
                if (o.st == FAIL || o.st == CRASH || o.st == HANG)
                {
                    agg.failures++;
                    handleFailure(culprit, o);
                }
                else if (o.st == SKIP && o.msg.rfind("known:", 0) == 0)
                {
                    // the batch was killed by a listed known finding (a sanitizer abort): counted as such, not as a flaky failure
                    agg.skipped++;
                    agg.knownHits[o.msg.substr(6)]++;
                }
                else if (!timedOut)
                {
                    agg.flaky++;  // died inside a batch but not alone: state leaked between cases -> harness bug, surfaced
                    // keep what the dying batch wrote, and the case the progress page named
                    mkdir("/verif/replays", 0755);
                    std::string dir = std::string("/verif/replays/") + cfg.property;
                    mkdir(dir.c_str(), 0755);
                    std::ofstream fc(dir + "/flaky-batch-" + std::to_string(idxs[culprit]) + ".case", std::ios::binary);
                    fc.write((const char *)b.data(), b.size());
                    std::ifstream fe(err);
                    std::ofstream fo(dir + "/flaky-batch-" + std::to_string(idxs[culprit]) + ".txt");
                    fo << "a batch of cases died at this case, which passes when run alone (exit status " << wst << ")\n" << fe.rdbuf();
                }
                else
                    agg.hangsInconclusive++;
                pos = culprit + 1;
            }
            if (pos < idxs.size())
                truncated = true;

            std::string dfile = out + ".digests";
            {
                std::ofstream f(dfile, std::ios::binary);
                f.write((const char *)agg.digests.data(), agg.digests.size() * sizeof(uint64_t));
            }
            for (auto &kv : repeatFailures)
                agg.cls["repeat-failure:" + kv.first] += kv.second;
            writeJson(out, agg, findings, now() - t0, truncated, dfile);
            return findings.empty() ? 0 : 1;
        }

        inline int mainReplay(const Args &args)
        {
            if (args.pos.size() < 2)
            {
                fprintf(stderr, "usage: replay FILE\n");
                return 2;
            }
            Settings st;
            st.known = splitSet(args.get("known"));
            st.tier = args.get("tier", "quick");
            Bytes b = readBytes(args.pos[1]);
            Outcome o = execInProcess(b, st, true);
            printf("%s", o.text.c_str());
            if (o.st == FAIL)
            {
                printf("\nFAIL key=%s\n%s\n", o.key.c_str(), o.msg.c_str());
                fflush(nullptr);
                _exit(1);
            }
            if (o.st == SKIP)
            {
                printf("\nSKIP %s\n", o.msg.c_str());
                fflush(nullptr);
                _exit(3);
            }
            printf("\nPASS (consumed %zu of %zu bytes, nontrivial=%d)\n", o.consumed, b.size(), (int)o.nontrivial);
            fflush(nullptr);
            if (VF_DETECT_LEAKS)
                exit(0);
            _exit(0);
        }

        // forked replay with verdict line (used for regression / witness replays and fuzzer artifacts)
        inline int mainVerdict(const Args &args)
        {
            Config cfg = config();
            Settings st;
            st.known = splitSet(args.get("known"));
            st.tier = args.get("tier", "quick");
            st.workdir = args.get("workdir", "/verif/.build/work");
            st.tag = std::string(cfg.property) + ".v" + std::to_string(getpid());
            int rc = 0;
            for (size_t i = 1; i < args.pos.size(); ++i)
            {
                Bytes b = readBytes(args.pos[i]);
                Outcome o = runSingle(b, st, false, cfg.caseTimeout);
                const char *names[] = {"PASS", "FAIL", "SKIP", "CRASH", "HANG", "SLOW"};
                printf("VERDICT %s %s key=%s\n", names[o.st], args.pos[i].c_str(), o.key.c_str());
                if (o.st == FAIL || o.st == CRASH || o.st == HANG)
                    rc = 1;
            }
            return rc;
        }

        inline int mainConfirm(const Args &args)
        {
            Config cfg = config();
            Settings st;
            st.known = splitSet(args.get("known"));
            st.tier = args.get("tier", "quick");
            st.workdir = args.get("workdir", "/verif/.build/work");
            st.tag = std::string(cfg.property) + ".c" + std::to_string(getpid());
            std::string out = args.get("out", st.workdir + "/confirm.json");
            Agg agg;
            std::vector<Finding> findings;
            std::set<std::string> seen;
            double t0 = now();
            for (size_t i = 1; i < args.pos.size(); ++i)
            {
                Bytes b = readBytes(args.pos[i]);
                Outcome o = runSingle(b, st, false, cfg.caseTimeout);
                agg.evaluations++;
                if (o.st == FAIL || o.st == CRASH || o.st == HANG)
                {
                    if (seen.count(o.key))
                        continue;
                    Finding fd;
                    if (processFailure(b, o, st, cfg.caseTimeout, i, fd))
                    {
                        findings.push_back(fd);
                        seen.insert(o.key);
                    }
                    else
                        agg.flaky++;
                }
            }
            writeJson(out, agg, findings, now() - t0, false, "");
            return findings.empty() ? 0 : 1;
        }
    }  // namespace rn
}  // namespace vf

#ifndef VF_FUZZ
int main(int argc, char **argv)
{
    vf::rn::Args a = vf::rn::parseArgs(argc, argv);
    std::string mode = a.pos.empty() ? "" : a.pos[0];
    // pos[0] may have been consumed as a key=value if it contains '='; modes never do
    vf::process_init();
    if (mode == "run")
        return vf::rn::mainRun(a);
    if (mode == "replay")
        return vf::rn::mainReplay(a);
    if (mode == "verdict")
        return vf::rn::mainVerdict(a);
    if (mode == "confirm")
        return vf::rn::mainConfirm(a);
    fprintf(stderr, "usage: %s run|replay|verdict|confirm ...\n", argv[0]);
    return 2;
}
#else
// libFuzzer driver ("driver B"): same run_case, oracle inside the target.
extern "C" int LLVMFuzzerTestOneInput(const uint8_t *data, size_t size)
{
    static bool init = (vf::process_init(), true);
    (void)init;
    static std::set<std::string> known = vf::rn::splitSet(getenv("VF_KNOWN") ? getenv("VF_KNOWN") : "");
    vf::rn::Settings st;
    st.known = known;
    vf::rn::Bytes b(data, data + size);
    vf::rn::Outcome o = vf::rn::execInProcess(b, st, false);
    if (o.st == vf::rn::FAIL)
    {
        fprintf(stderr, "VF-FUZZ-FAIL key=%s msg=%s\n", o.key.c_str(), o.msg.c_str());
        fflush(nullptr);
        __builtin_trap();
    }
    return 0;
}
#endif
