#!/bin/bash
# exploration aid: the partial-motion planner x curve family combinations without a recorded witness, 15000 targeted cases each
cd /verif
run(){ echo "== $1 $2"; VF_FORCE_SPACE=$1 VF_FORCE_PLANNER="$2" ./check C01 --tier quick --seed ${3:-51} --cases 15000 --no-fuzz 2>&1 | grep -E "key=|HARNESS|C01 quick" | cut -c1-260; }
run Dubins STRIDE; run Dubins RLRT; run ReedsShepp PDST; run ReedsShepp RLRT; run ReedsShepp "RRT(intermediate)"; run ReedsShepp "RRTConnect(intermediate)"
git checkout -- evidence/C01.json
