#!/bin/bash
# usage: sweep_planners.sh <seed> [cases]  -- exploration aid: runs the C01 generator once per planner (VF_FORCE_PLANNER) so that rare
# per-planner behaviour shows up before a differently seeded quick run meets it; prints every failure key found. Not part of any check.
seed=${1:-31}; cases=${2:-3000}
cd /verif
for p in $(grep -o '^            {"[^"]*"' gen/planning.h | cut -d'"' -f2); do
  echo "== $p"
  VF_FORCE_PLANNER="$p" ./check C01 --tier quick --seed $seed --cases $cases --no-fuzz 2>&1 | grep -E "key=|HARNESS|hang|C01 quick" | cut -c1-260
done
git checkout -- evidence/C01.json
