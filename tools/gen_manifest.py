#!/usr/bin/env python3
"""Regenerates /verif/MANIFEST.json from registry.py (single source of truth) and validates it against the schema."""
import json, os, sys
V = os.path.dirname(os.path.dirname(os.path.abspath(__file__)))
sys.path.insert(0, V)
from registry import CHECKS, NOT_APPLICABLE, HOOK_COMMITS

props = [json.loads(l) for l in open(os.path.join(V, "properties.jsonl"))]
checks = []
for p in props:
    pid = p["id"]
    if pid not in CHECKS or not CHECKS[pid].get("registered", True):
        continue
    c = CHECKS[pid]
    checks.append({
        "property_id": pid,
        "quick_cmd": "./check %s --tier quick" % pid,
        "thorough_cmd": "./check %s --tier thorough" % pid,
        "evidence_file": "/verif/evidence/%s.json" % pid,
        "replay_cmd_template": "./check %s --replay {path}" % pid,
        "engine": "vf-choice-sequence",
        "level_claimed": {"category": "exploration", "text": c["level_text"], "design_ref": "DESIGN.md section 4, " + pid},
        "level_note": c["level_note"],
        "technique": c["technique"],
    })
na = [{"property_id": p["id"], "reason": NOT_APPLICABLE.get(p["id"], "check not built yet in this revision of /verif (work in progress; see DESIGN.md section 4)")}
      for p in props if p["id"] not in {c["property_id"] for c in checks}]
m = {
    "version": 1,
    "setup_cmd": "./check setup",
    "hooks": {
        "guard": "OMPL_VERIF",
        "enable": "checks compile /repo/src/ompl into /verif/.build/<flavor>/libompl.a with -DOMPL_VERIF (build-support/CMakeLists.txt); no file under /repo is written. "
                  "The only hook is ompl/util/VerifHooks.h: OMPL_VERIF_YIELD(site) at the lock sites of pRRT, pSBL, PRM, CForest and AnytimePathShortening "
                  "(expands to nothing without the define); the C19 companion harness installs a callback there that yields / sleeps",
        "baseline_off_cmd": "cmake --build /repo/_build -j16 && ctest --test-dir /repo/_build -j8 --timeout 900",
        "source_commits": HOOK_COMMITS,
        "add_only": True,
    },
    "engines": [{
        "name": "vf-choice-sequence", "path": "core/",
        "serves_properties": [c["property_id"] for c in checks],
        "kind_free_text": "property-based testing: every case is a byte string decoded by core/verif.h (Src); driver A = counter-based seeded "
                          "generator (pure function of VERIF_SEED, property, index) with fork isolation, 3x confirmation in fresh processes and a "
                          "generic byte shrinker (core/runner.h); driver B = libFuzzer on the same run_case with the oracle inside the target "
                          "(thorough tier of in-process properties); sanitizers (ASan+UBSan, TSan for C19) keep memory errors and UB visible",
    }],
    "checks": checks,
    "not_applicable": na,
    "notes": "Known findings and repaired defects: known_findings.json. Seeded breaking changes and which check catches them: seeded/ and DESIGN.md section 8.",
}
json.dump(m, open(os.path.join(V, "MANIFEST.json"), "w"), indent=1)
try:
    import jsonschema
    jsonschema.validate(m, json.load(open("/root/.vp/MANIFEST.schema.json")))
    print("MANIFEST.json valid:", len(checks), "checks,", len(na), "not_applicable")
except ImportError:
    print("jsonschema not importable with this python; run with python3-vt")
