#!/usr/bin/env python3
"""run_seeds.py <seed-id> <check> [<check> ...] -- applies seeded/<id>/patch.diff to /repo, runs the quick checks, reverts, records in meta.json"""
import json, subprocess, sys, time
sid, checks = sys.argv[1], sys.argv[2:]
d = "/verif/seeded/%s" % sid
r = subprocess.run(["git", "-C", "/repo", "apply", d + "/patch.diff"])
if r.returncode: sys.exit("patch does not apply")
try:
    meta = json.load(open(d + "/meta.json"))
    for c in checks:
        t0 = time.time()
        r = subprocess.run(["/verif/check", c], cwd="/verif", stdout=subprocess.PIPE, stderr=subprocess.STDOUT, text=True)
        lines = [l for l in r.stdout.splitlines() if not l.startswith("KNOWN-FINDING")]
        keys = [l.strip()[:200] for l in lines if l.strip().startswith("key=")]
        rec = {"check": c, "tier": "quick", "seed": 1, "exit": r.returncode, "caught": r.returncode == 1 and any(l.startswith("VIOLATION") for l in lines),
               "first_keys": keys[:3], "wall_s": round(time.time() - t0, 1), "harness_commit": subprocess.run(["git", "-C", "/verif", "rev-parse", "--short", "HEAD"], stdout=subprocess.PIPE, text=True).stdout.strip()}
        meta["checks_run_against_it"].append(rec)
        print(json.dumps(rec), flush=True)
    json.dump(meta, open(d + "/meta.json", "w"), indent=1)
finally:
    subprocess.run(["git", "-C", "/repo", "checkout", "--", "."])
    subprocess.run(["git", "-C", "/verif", "checkout", "--", "evidence"])  # evidence written against a changed tree is not kept
