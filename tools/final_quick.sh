#!/bin/bash
# runs every registered quick check once on /repo (sequentially), prints exit code, wall time and the summary line of each
cd /verif
for c in C01 C02 C03 C04 C05 C06 C07 C08 C09 C10 C11 C12 C13 C14 C15 C16 C17 C18 C19 C20; do
  t0=$(date +%s); ./check $c --tier quick > .build/work/final_$c.log 2>&1; ex=$?; t1=$(date +%s)
  echo "$c exit=$ex wall=$((t1-t0))s $(grep -c '^KNOWN-FINDING' .build/work/final_$c.log) known | $(grep -v '^KNOWN-FINDING' .build/work/final_$c.log | grep -E 'quick seed|VIOLATION|NOTE|ERROR' | tr '\n' ' ' | cut -c1-230)"
done
