#!/usr/bin/env python3
"""keep_seed.py <id> <property> "<what it needs to manifest>" [worktree]  -- copies a confirmed sub-agent change into /verif/seeded/<id>/"""
import json, os, shutil, sys
sid, prop, needs = sys.argv[1], sys.argv[2], sys.argv[3]
src = (sys.argv[4] if len(sys.argv) > 4 else "/tmp/seed_%s" % sid) + "/_seed_out"
dst = "/verif/seeded/%s" % sid
os.makedirs(dst, exist_ok=True)
for f in ("patch.diff", "demo.cpp", "build_and_run.sh", "README.md"):
    if os.path.exists(os.path.join(src, f)):
        shutil.copy(os.path.join(src, f), dst)
conf = open("/tmp/confirm_%s.log" % sid).read()
meta = {"seed": sid, "breaks_property": prop, "needs_to_manifest": needs,
        "written_by": "independent sub-agent given only the property text and its own scratch worktree",
        "confirmed_by_me": {"how": "tools/confirm_seed.sh %s in the scratch worktree: patch applies and builds; demonstration exits 1 with the change and 0 without; "
                                   "ctest (21 binaries / 116 tests) passes with the change" % sid,
                            "log_excerpt": [l for l in conf.splitlines() if "demo exit" in l or "tests passed" in l]},
        "checks_run_against_it": []}
json.dump(meta, open(os.path.join(dst, "meta.json"), "w"), indent=1)
print("kept", dst)
