#!/usr/bin/env python3
"""seedlab_collect.py -- merges /var/tmp/sl/results.jsonl into seeded/<id>/meta.json (checks_run_against_it) and prints a summary"""
import json, os
seen = set()
for l in open("/var/tmp/sl/results.jsonl"):
    r = json.loads(l)
    if "error" in r:
        print(r); continue
    p = "/verif/seeded/%s/meta.json" % r["seed"]
    m = json.load(open(p))
    rec = {"check": r["check"], "tier": "quick", "seed": r["seed_value"], "exit": r["exit"], "caught": r["caught"], "first_keys": r["first_keys"],
           "wall_s": r["wall_s"], "harness_commit": r["harness_commit"]}
    if rec not in m["checks_run_against_it"]:
        m["checks_run_against_it"].append(rec)
        json.dump(m, open(p, "w"), indent=1)
    print(r["seed"], r["check"], "CAUGHT" if r["caught"] else "missed (exit %d)" % r["exit"], (r["first_keys"] or [""])[0][:150])
