#!/bin/bash
# usage: sweep_curves.sh <seed> [cases]  -- exploration aid: every direction-aware planner pinned to Dubins and to Reeds-Shepp
seed=${1:-41}; cases=${2:-3000}
cd /verif
for sp in Dubins ReedsShepp; do
for p in KPIECE1 STRIDE PDST RLRT RRT "RRT(intermediate)" RRTConnect "RRTConnect(intermediate)" LazyRRT TRRT BiTRRT EST ProjEST SST; do
  echo "== $sp $p"
  VF_FORCE_SPACE=$sp VF_FORCE_PLANNER="$p" ./check C01 --tier quick --seed $seed --cases $cases --no-fuzz 2>&1 | grep -E "key=|HARNESS|C01 quick" | cut -c1-260
done; done
git checkout -- evidence/C01.json
