#!/usr/bin/env python3
"""Sensitivity runs: apply one mutant at a time to /repo's working tree, run the quick check(s), revert, record the outcome.
usage: tools/run_mutants.py [name ...]   (default: all)   -> appends to SENSITIVITY.log (human summary goes to SENSITIVITY.md)"""
import json, os, subprocess, sys, time
R = "/repo/src/ompl/"
M = [
 # name, property, file, old, new
 ("C01a-rrt-skips-checkMotion", ["C01"], "geometric/planners/rrt/src/RRT.cpp", "if (si_->checkMotion(nmotion->state, dstate))", "if (true || si_->checkMotion(nmotion->state, dstate))"),
 ("C02d-control-rrt-duration-off-by-one", ["C02"], "control/planners/rrt/src/RRT.cpp", "path->append(mpath[i]->state, mpath[i]->control, mpath[i]->steps * siC_->getPropagationStepSize());", "path->append(mpath[i]->state, mpath[i]->control, (mpath[i]->steps + 1) * siC_->getPropagationStepSize());"),
 ("C03a-planner-clear-keeps-input-states", ["C03"], "base/src/Planner.cpp", "    pis_.clear();\n    pis_.update();", "    pis_.update();"),
 ("C04b-solution-order-branch-flipped", ["C04"], "base/src/ProblemDefinition.cpp", "    if (optimized_ && !b.optimized_)\n        return true;\n    if (!optimized_ && b.optimized_)\n        return false;", "    if (optimized_ && !b.optimized_)\n        return false;\n    if (!optimized_ && b.optimized_)\n        return true;"),
 ("C05a-validator-loop-starts-at-2", ["C05"], "base/src/DiscreteMotionValidator.cpp", "        for (int j = 1; j < nd; ++j)", "        for (int j = 2; j < nd; ++j)"),
 ("C06c-compound-distance-ignores-weights", ["C06"], "base/src/StateSpace.cpp", "dist += weights_[i] * components_[i]->distance(cstate1->components[i], cstate2->components[i]);", "dist += components_[i]->distance(cstate1->components[i], cstate2->components[i]);"),
 ("C07a-so2-interpolate-no-rewrap", ["C07"], "base/spaces/src/SO2StateSpace.cpp", "        if (v > pi)\n            v -= 2.0 * pi;\n        else if (v < -pi)\n            v += 2.0 * pi;", "        if (v > pi)\n            v -= 2.0 * pi;"),
 ("C08b-realvector-gaussian-no-clamp", ["C08"], "base/spaces/src/RealVectorStateSpace.cpp", "        if (v < bounds.low[i])\n            v = bounds.low[i];\n        else if (v > bounds.high[i])\n            v = bounds.high[i];", "        if (v < bounds.low[i])\n            v = bounds.low[i];"),
 ("C09b-storeEdges-drops-weight", ["C09"], "base/PlannerDataStorage.h", "edgeData.weight_ = weight.value();", "edgeData.weight_ = 1.0;"),
 ("C10a-gnat-nearestK-pruning", ["C10"], "datastructures/NearestNeighborsGNAT.h", "if (nbhQueue.size() == k && (nodeDist.second > nodeDist.first->maxRadius_ + dist ||", "if (nbhQueue.size() == k && (nodeDist.second > nodeDist.first->maxRadius_ ||"),
 ("C11a-heap-percolateUp-parent-index", ["C11"], "datastructures/BinaryHeap.h", "                parent = (parent - 1) >> 1;\n            }\n            if (child != pos)", "                parent = parent >> 1;\n            }\n            if (child != pos)"),
 ("C12b-pdf-update-forgets-top-row", ["C12"], "datastructures/PDF.h", "            for (std::size_t row = 1; row < tree_.size(); ++row)\n            {\n                tree_[row][index] += weightChange;", "            for (std::size_t row = 1; row + 1 < tree_.size(); ++row)\n            {\n                tree_[row][index] += weightChange;"),
 ("C13a-gridn-remove-skips-border-flip", ["C13"], "datastructures/GridN.h", "                    c->neighbors--;\n                    if (!c->border && c->neighbors < interiorCellNeighborsLimit_)\n                        c->border = true;\n                }\n                delete list;", "                    c->neighbors--;\n                }\n                delete list;"),
 ("C14b-dubins-RLR-sign", ["C14"], "base/spaces/src/DubinsStateSpace.cpp", "double tmp = .125 * (6. - d * d + 2. * (ca * cb + sa * sb + d * (sa - sb)));", "double tmp = .125 * (6. - d * d + 2. * (ca * cb + sa * sb - d * (sa - sb)));"),
 ("C15b-ball-radius-exponent", ["C15"], "util/src/RandomNumbers.cpp", "double radiusScale = r * std::pow(uniformReal(0.0, 1.0), 1.0 / static_cast<double>(v.size()));", "double radiusScale = r * std::pow(uniformReal(0.0, 1.0), 1.0 / static_cast<double>(v.size() + 1));"),
 ("C16d-projected-sampler-near-skips-project", ["C16"], "base/spaces/constraint/src/ProjectedStateSpace.cpp", "    WrapperStateSampler::sampleUniformNear(state, near, distance);\n    constraint_->project(state);", "    WrapperStateSampler::sampleUniformNear(state, near, distance);"),
 ("C17b-partialShortcut-skips-validation", ["C17"], "geometric/src/PathSimplifier.cpp", "        if (si->checkMotion(s0, s1))", "        if (true || si->checkMotion(s0, s1))"),
 ("C18c-iteration-condition-off-by-one", ["C18"], "base/terminationconditions/src/IterationTerminationCondition.cpp", "return (timesCalled_ > maxCalls_);", "return (timesCalled_ >= maxCalls_);"),
 ("C19b-solution-set-add-unlocked", ["C19"], "base/src/ProblemDefinition.cpp", "            void add(const PlannerSolution &s)\n            {\n                std::lock_guard<std::mutex> slock(lock_);", "            void add(const PlannerSolution &s)\n            {"),
 ("C20a-rrt-goal-bias-depends-on-pointer", ["C20"], "geometric/planners/rrt/src/RRT.cpp", "if ((goal_s != nullptr) && rng_.uniform01() < goalBias_ && goal_s->canSample())", "if ((goal_s != nullptr) && rng_.uniform01() < goalBias_ * (1 + ((reinterpret_cast<std::uintptr_t>(rmotion) >> 6) & 7)) && goal_s->canSample())"),
]
def main():
    names = sys.argv[1:]
    for name, props, f, old, new in M:
        if names and name not in names: continue
        path = R + f
        src = open(path).read()
        if old is None:
            pf = os.path.join("/verif/tools/mutants", name + ".py")
            if not os.path.exists(pf):
                print("SKIP", name, "(no edit script)"); continue
            ns = {}
            exec(open(pf).read(), ns)
            mutated = ns["mutate"](src)
        else:
            if src.count(old) < 1:
                print("SKIP", name, "pattern not found"); continue
            mutated = src.replace(old, new, 1)
        open(path, "w").write(mutated)
        try:
            for p in props:
                t0 = time.time()
                r = subprocess.run(["/verif/check", p], cwd="/verif", stdout=subprocess.PIPE, stderr=subprocess.STDOUT, text=True)
                lines = [l for l in r.stdout.splitlines() if not l.startswith("KNOWN-FINDING")]
                viol = [l for l in lines if l.startswith("VIOLATION")]
                keys = [l.strip() for l in lines if l.strip().startswith("key=")]
                rec = {"mutant": name, "check": p, "exit": r.returncode, "violations": len(viol), "first_keys": [k[:160] for k in keys[:3]], "wall_s": round(time.time() - t0, 1)}
                print(json.dumps(rec), flush=True)
                open("/verif/SENSITIVITY.log", "a").write(json.dumps(rec) + "\n")
        finally:
            subprocess.run(["git", "-C", "/repo", "checkout", "--", "."])
            subprocess.run(["git", "-C", "/verif", "checkout", "--", "evidence"])  # evidence written against a changed tree is not kept
main()
