#!/bin/bash
# usage: soak.sh "<checks>" "<seeds>"  -- runs the quick tier of each check for each seed on the unchanged tree and prints summary / VIOLATION lines
# (a VIOLATION here means: fix the defect, record the finding, or correct the check - before anything else). Evidence is restored afterwards.
cd /verif
for c in $1; do for s in $2; do
  ./check $c --tier quick --seed $s --no-fuzz 2>&1 | grep -E "^VIOLATION|key=|HARNESS|quick seed" | cut -c1-240
done; done
git checkout -- evidence
