#!/bin/bash
# usage: confirm_seed.sh <id> [worktree]  (log /tmp/confirm_<id>.log; round-2 seeds: confirm_seed.sh C03-r2 /tmp/seed2_C03)
#   -- re-confirms a sub-agent's seeded change inside its scratch worktree /tmp/seed_<id>
# (patch applies and compiles; demonstration fails with it and passes without it; the existing test suite passes with it)
id=$1; wt=${2:-/tmp/seed_$id}; out=$wt/_seed_out; log=/tmp/confirm_$id.log
cd $wt || exit 2
{
echo "== confirm $id $(date)"
git checkout -- src 2>&1
git apply --check $out/patch.diff && git apply $out/patch.diff || { echo "PATCH-DOES-NOT-APPLY"; exit 1; }
(cd _b && ninja -j8 > /tmp/confirm_${id}_build.log 2>&1) || { echo "BUILD-FAILS-WITH-CHANGE"; git checkout -- src; exit 1; }
echo "-- demo with change"; (cd $out && bash build_and_run.sh > /tmp/confirm_${id}_demo_with.log 2>&1); echo "demo exit with change: $?"
echo "-- ctest with change"; (cd _b && ctest -j4 --timeout 900 2>&1 | tail -4)
git checkout -- src
(cd _b && ninja -j8 > /tmp/confirm_${id}_build2.log 2>&1)
echo "-- demo without change"; (cd $out && bash build_and_run.sh > /tmp/confirm_${id}_demo_without.log 2>&1); echo "demo exit without change: $?"
echo "== done $(date)"
} > $log 2>&1
