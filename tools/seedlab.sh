#!/bin/bash
# seedlab.sh "<seed-id> <check>[ <check>...]" ...
# Runs quick checks against seeded changes WITHOUT touching /repo or /verif: both trees are copied to /var/tmp/sl and bind-mounted over
# /repo and /verif inside a private mount namespace (all paths, hence all failure keys, stay identical). Results: one JSON line per run in
# $L/results.jsonl (tools/seedlab_collect.py merges them into seeded/<id>/meta.json). Exploration aid only; nothing registered
# in MANIFEST.json uses it. Remove /var/tmp/sl when done.
set -u
L=${SL:-/var/tmp/sl}
export L
mkdir -p $L/repo $L/verif
rsync -a --delete --exclude _build --exclude .git /repo/ $L/repo/
rsync -a --delete --exclude replays --exclude .git /verif/ $L/verif/
HC=$(git -C /verif rev-parse --short HEAD)
export HC
unshare -m bash -s -- "$@" <<'EOF'
mount --bind $L/repo /repo
mount --bind $L/verif /verif
cd /verif
for spec in "$@"; do
  set -- $spec
  seed=$1; shift
  ( cd /repo && patch -s -p1 < /verif/seeded/$seed/patch.diff ) || { echo "{\"seed\":\"$seed\",\"error\":\"patch does not apply\"}" >> $L/results.jsonl; continue; }
  for chk in "$@"; do
    t0=$(date +%s)
    ./check $chk ${CASES:+--cases $CASES} > $L/$seed.$chk.log 2>&1
    ex=$?
    t1=$(date +%s)
    python3 - "$seed" "$chk" "$ex" "$((t1-t0))" <<'PY' >> $L/results.jsonl
import json, os, sys
seed, chk, ex, wall = sys.argv[1], sys.argv[2], int(sys.argv[3]), int(sys.argv[4])
lines = [l for l in open(os.environ["L"] + "/%s.%s.log" % (seed, chk), errors="replace").read().splitlines() if not l.startswith("KNOWN-FINDING")]
keys = [l.strip()[:200] for l in lines if l.strip().startswith("key=")]
print(json.dumps({"seed": seed, "check": chk, "tier": "quick", "seed_value": 1, "exit": ex, "caught": ex == 1 and any(l.startswith("VIOLATION") for l in lines),
                  "first_keys": keys[:3], "wall_s": wall, "harness_commit": os.environ.get("HC", "")}))
PY
  done
  ( cd /repo && patch -s -R -p1 < /verif/seeded/$seed/patch.diff )
done
EOF
