#!/usr/bin/env python3
"""seed_prompt.py <property-id> <round>  -- prints the text handed to a fresh sub-agent for an independently written breaking change.
The agent gets the property's own text (from properties.jsonl), its scratch worktree path and one line per change that already exists for
the property (so that the new one differs in site and clause) -- nothing else from /verif."""
import glob, json, sys
pid, rnd = sys.argv[1], sys.argv[2]
wt = "/tmp/seed%s_%s" % (rnd, pid)
prop = [json.loads(l) for l in open("/verif/properties.jsonl") if json.loads(l)["id"] == pid][0]
existing = []
for m in sorted(glob.glob("/verif/seeded/%s*/meta.json" % pid)):
    mm = json.load(open(m))
    existing.append("- " + mm["needs_to_manifest"])
print("""You are helping to evaluate a verification effort for the C++ motion-planning library ompl/ompl. Your task is to write ONE realistic
defect ("seeded change") into a private scratch copy of the library, and a small demonstration program that exposes it.

Your scratch copy is the git worktree %(wt)s (a checkout of the library at its current commit). Work ONLY inside that directory. Never read,
list or write anything under /verif or /repo (both are off limits; your result must be independent of them), and do not touch other
directories under /tmp that are not yours.

The property your change must break:

  title: %(title)s
  statement: %(stmt)s
  code the property is anchored in: %(files)s

What I need from you:

1. A small change to the library sources under %(wt)s/src/ompl (a few lines; the kind of slip a maintainer could make in a refactoring, an
   optimisation or a bug fix - not sabotage that any use would expose at once) such that
   * the library and its test suite still compile,
   * the existing test suite still passes (all of ctest),
   * the property above is violated for SOME inputs / operation sequences / schedules - and the violation needs something specific to
     manifest: a particular multi-step sequence of operations, an unusual but legal input or configuration, a particular interleaving, a
     fault at a particular point, or two cooperating sites that each look fine alone. Ordinary use with default parameters should mostly keep
     working. Only legal use counts: respect documented preconditions of the API.
%(existing)s
2. A demonstration: a stand-alone C++ program demo.cpp (using only the library's public API) that exits with status 1 (printing what went
   wrong) when run against the changed library and exits 0 against the unchanged library, deterministically (fixed seeds via
   ompl::RNG::setSeed, no wall-clock dependence where avoidable).

How to work:
* Build: `cmake -G Ninja -S %(wt)s -B %(wt)s/_b -DCMAKE_BUILD_TYPE=RelWithDebInfo -DOMPL_BUILD_DEMOS=OFF -DOMPL_BUILD_PYBINDINGS=OFF
  -DOMPL_BUILD_PYTESTS=OFF -DOMPL_REGISTRATION=OFF` then `ninja -C %(wt)s/_b -j6` (other jobs share this machine: do not use more than 6
  jobs; the first build takes several minutes, later ones are incremental). Run the tests with `cd %(wt)s/_b && ctest -j4 --timeout 900`
  (21 test binaries; about 3-6 minutes). There is no network.
* Read the anchored code first, pick the site, make the change, rebuild, write the demonstration, run ctest with the change in place.
* Put your deliverables in %(wt)s/_seed_out/ :
    patch.diff        `git -C %(wt)s diff -- src` of your change (must apply with `git apply` to a clean checkout)
    demo.cpp          the demonstration
    build_and_run.sh  builds demo.cpp against the library built in %(wt)s/_b (g++ -O2 -std=c++17 -I%(wt)s/src -I%(wt)s/_b/src
                      -I/usr/include/eigen3 ... -L%(wt)s/_b/src/ompl -lompl -lboost_serialization -lboost_filesystem -lboost_system -lpthread,
                      run with LD_LIBRARY_PATH=%(wt)s/_b/src/ompl) and runs it; its exit status is the demonstration's
    README.md         what the change is, why it passes the tests, what exactly is needed for it to manifest, what the demonstration does
* Before you finish: verify (a) with the change: library builds, build_and_run.sh exits 1, full ctest passes; (b) with the change reverted
  (`git -C %(wt)s checkout -- src`, rebuild): build_and_run.sh exits 0. Leave the sources REVERTED, and leave _b and _seed_out in place.
* Do not commit anything. Do not create files outside %(wt)s.

In your final answer give: the changed file(s) and a 3-line description of the change, what it needs to manifest, and the outcome of the
four verifications (build, demo with, ctest with, demo without).""" % {
    "wt": wt, "title": prop["title"], "stmt": prop["statement"], "files": ", ".join(prop["anchors"]["files"]),
    "existing": ("   Changes that ALREADY exist for this property (described by what they need to manifest) - yours must differ from all of them in\n"
                 "   the code site AND in the clause of the statement it breaks:\n   " + "\n   ".join(existing) + "\n") if existing else ""})
