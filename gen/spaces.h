// Shared generators: state spaces (all shipped kinds, wrappers, nested weighted compounds), adversarial states and
// pairs, typed traversal of a state's leaves (harness-owned: independent of the library's own distance/equality).
#pragma once
#include "../core/verif.h"
#include "ompl/base/StateSpace.h"
#include "ompl/base/spaces/DiscreteStateSpace.h"
#include "ompl/base/spaces/DubinsStateSpace.h"
#include "ompl/base/spaces/RealVectorStateSpace.h"
#include "ompl/base/spaces/ReedsSheppStateSpace.h"
#include "ompl/base/spaces/SE2StateSpace.h"
#include "ompl/base/spaces/SE3StateSpace.h"
#include "ompl/base/spaces/SO2StateSpace.h"
#include "ompl/base/spaces/SO3StateSpace.h"
#include "ompl/base/spaces/TimeStateSpace.h"
#include "ompl/base/spaces/WrapperStateSpace.h"
#include "ompl/base/spaces/special/KleinBottleStateSpace.h"
#include "ompl/base/spaces/special/MobiusStateSpace.h"
#include "ompl/base/spaces/special/SphereStateSpace.h"
#include "ompl/base/spaces/special/TorusStateSpace.h"
#include "ompl/util/Exception.h"
#include <functional>
#include <memory>

namespace gen
{
    namespace ob = ompl::base;
    static const double PI = 3.14159265358979323846;

    enum Kind
    {
        RV,
        SO2,
        SO3,
        TIME,
        DISCRETE,
        SE2,
        SE3,
        TORUS,
        SPHERE,
        MOBIUS,
        KLEIN,
        DUBINS,
        REEDSSHEPP,
        COMPOUND,
        WRAPPER
    };
    inline const char *kindName(Kind k)
    {
        static const char *n[] = {"Rn", "SO2", "SO3", "Time", "Discrete", "SE2", "SE3", "Torus", "Sphere", "Mobius", "Klein", "Dubins", "ReedsShepp", "Compound", "Wrapper"};
        return n[k];
    }

    struct Desc
    {
        Kind kind = RV;
        ob::StateSpacePtr space;
        std::vector<Desc> subs;  // components (all compound-layout kinds) or the wrapped space
        std::vector<double> w;   // component weights
        std::vector<double> lo, hi;  // RV
        bool bounded = true;         // TIME
        double tlo = 0, thi = 1;
        int dlo = 0, dhi = 1;  // DISCRETE
        double p1 = 1, p2 = 0.5;  // radius / turning radius / major, minor / intervalMax, radius
        bool symmetric = false;
        std::string boundsClass;
        int depth = 0;

        bool compoundLayout() const
        {
            return kind >= SE2 && kind <= COMPOUND;
        }
        bool contains(Kind k) const
        {
            if (kind == k)
                return true;
            for (auto &s : subs)
                if (s.contains(k))
                    return true;
            return false;
        }
        std::string name() const
        {
            std::string r = kindName(kind);
            if ((kind == SE2 || kind == SE3) && w.size() == 2 && (w[0] != 1 || w[1] != (kind == SE2 ? 0.5 : 1)))
                r += vf::fmt("(w=%g,%g)", w[0], w[1]);
            if (kind == RV)
                r += std::to_string(lo.size()) + "[" + boundsClass + "]";
            else if (kind == DISCRETE)
                r += "[" + std::to_string(dlo) + ".." + std::to_string(dhi) + "]";
            else if (kind == TIME)
                r += bounded ? "[bounded]" : "[unbounded]";
            else if (kind == SPHERE || kind == DUBINS || kind == REEDSSHEPP)
                r += vf::fmt("(%.3g%s)", p1, symmetric ? ",sym" : "");
            else if (kind == COMPOUND || kind == WRAPPER)
            {
                r += "(";
                for (size_t i = 0; i < subs.size(); ++i)
                {
                    if (i)
                        r += ",";
                    if (kind == COMPOUND)
                        r += vf::fmt("%g*", w[i]);
                    r += subs[i].name();
                }
                r += ")";
            }
            return r;
        }
    };

    // ---- space construction -------------------------------------------------------------------------------------
    inline void fillRVBounds(vf::Src &s, Desc &d, unsigned n)
    {
        static const char *cls[] = {"unit", "shifted", "negative", "huge", "tiny", "zero-width-dim"};
        size_t c = s.weighted({6, 2, 2, 1, 1, 1});
        d.boundsClass = cls[c];
        d.lo.assign(n, 0);
        d.hi.assign(n, 1);
        for (unsigned i = 0; i < n; ++i)
        {
            switch (c)
            {
                case 0:
                    d.lo[i] = 0;
                    d.hi[i] = 1;
                    break;
                case 1:
                    d.lo[i] = 10;
                    d.hi[i] = 12 + i;
                    break;
                case 2:
                    d.lo[i] = -5;
                    d.hi[i] = -1;
                    break;
                case 3:
                    d.lo[i] = -1e6;
                    d.hi[i] = 1e6;
                    break;
                case 4:
                    d.lo[i] = 0;
                    d.hi[i] = 1e-3;
                    break;
                default:
                    d.lo[i] = -1;
                    d.hi[i] = 2;
            }
        }
        if (c == 5)
        {
            size_t z = s.pick(n);
            d.hi[z] = d.lo[z];
        }
    }
    inline ob::RealVectorBounds toBounds(const Desc &d)
    {
        ob::RealVectorBounds b((unsigned)d.lo.size());
        for (size_t i = 0; i < d.lo.size(); ++i)
        {
            b.setLow((unsigned)i, d.lo[i]);
            b.setHigh((unsigned)i, d.hi[i]);
        }
        return b;
    }
    inline Desc leafRV(const ob::StateSpacePtr &sp, const std::vector<double> &lo, const std::vector<double> &hi, const char *cls)
    {
        Desc d;
        d.kind = RV;
        d.space = sp;
        d.lo = lo;
        d.hi = hi;
        d.boundsClass = cls;
        return d;
    }
    inline Desc leafOf(Kind k, const ob::StateSpacePtr &sp)
    {
        Desc d;
        d.kind = k;
        d.space = sp;
        return d;
    }
    // describe the components of a compound-layout space that the library built itself
    inline void describeBuiltin(Desc &d)
    {
        auto *cs = d.space->as<ob::CompoundStateSpace>();
        d.subs.clear();
        d.w.clear();
        for (unsigned i = 0; i < cs->getSubspaceCount(); ++i)
        {
            auto sub = cs->getSubspace(i);
            d.w.push_back(cs->getSubspaceWeight(i));
            if (auto *rv = dynamic_cast<ob::RealVectorStateSpace *>(sub.get()))
            {
                const auto &b = rv->getBounds();
                d.subs.push_back(leafRV(sub, b.low, b.high, "builtin"));
            }
            else if (dynamic_cast<ob::SO2StateSpace *>(sub.get()))
                d.subs.push_back(leafOf(SO2, sub));
            else if (dynamic_cast<ob::SO3StateSpace *>(sub.get()))
                d.subs.push_back(leafOf(SO3, sub));
            else
                throw std::runtime_error("describeBuiltin: unexpected component");
        }
    }

    struct SpaceOpts
    {
        bool allowDubinsFamily = true;
        bool allowSpecial = true;   // torus, sphere, mobius, klein
        bool allowDiscrete = true;
        bool allowUnboundedTime = false;
        bool allowZeroWeight = true;
        bool allowZeroWidth = true;
        int maxDepth = 3;
        vf::Ctx *ctx = nullptr;  // for known-finding exclusions by construction
        // at most one of the curve families {Dubins, Dubins(symmetric), Reeds-Shepp} per generated space, so that a failure in a
        // compound can be attributed to one family (each has its own known-finding keys)
        mutable int curveFamily = -1;
    };
    // Known finding (not repaired, see known_findings.json): a WrapperStateSpace around a compound-layout space that is
    // itself a component of a compound makes StateSpace::setup() downcast the wrapper to CompoundStateSpace (UB).
    static const char *const KEY_WRAPPER_DOWNCAST = "san/ubsan-downcast-of-address@StateSpace.h/StateSpace.cpp/ompl::base::computeLocationsHelper";
    inline bool isCompoundLike(const Desc &d)
    {
        return d.compoundLayout() || (d.kind == WRAPPER && isCompoundLike(d.subs[0]));
    }

    // SE(2) / SE(3) are compounds whose component weights the public setSubspaceWeight() may change (also after lock()); the weights the
    // constructor sets (1, 0.5 / 1, 1) are only the default. One byte decides (zero byte: untouched).
    inline void reweightBuiltin(vf::Src &s, ob::CompoundStateSpace &cs)
    {
        if (!s.chance(56))
            return;
        static const double ws[] = {0.25, 3, 7.5, 1e-3, 1, 0};
        for (unsigned i = 0; i < cs.getSubspaceCount(); ++i)
            if (s.flag())
                cs.setSubspaceWeight(i, ws[s.weighted({3, 3, 2, 2, 2, 1})]);
    }

    inline Desc genSpace(vf::Src &s, const SpaceOpts &o, int depth = 0)
    {
        Desc d;
        d.depth = depth;
        size_t k = s.weighted({6, 3, 3, 4, 4, 2, o.allowDiscrete ? 2 : 0, o.allowSpecial ? 2 : 0, o.allowSpecial ? 2 : 0, o.allowSpecial ? 2 : 0,
                               o.allowSpecial ? 2 : 0, o.allowDubinsFamily ? 3 : 0, o.allowDubinsFamily ? 2 : 0, depth < o.maxDepth ? 6 : 0,
                               depth < o.maxDepth ? 2 : 0});
        switch (k)
        {
            case 0:
            {
                d.kind = RV;
                unsigned n = (unsigned)s.in(1, 8);
                fillRVBounds(s, d, n);
                if (!o.allowZeroWidth && d.boundsClass == "zero-width-dim")
                {
                    for (unsigned i = 0; i < n; ++i)
                        d.hi[i] = d.lo[i] + 3;
                    d.boundsClass = "unit3";
                }
                auto sp = std::make_shared<ob::RealVectorStateSpace>(n);
                sp->setBounds(toBounds(d));
                d.space = sp;
                break;
            }
            case 1:
                d.kind = SO2;
                d.space = std::make_shared<ob::SO2StateSpace>();
                break;
            case 2:
                d.kind = SO3;
                d.space = std::make_shared<ob::SO3StateSpace>();
                break;
            case 3:
            case 11:
            case 12:
            {
                d.kind = k == 3 ? SE2 : k == 11 ? DUBINS : REEDSSHEPP;
                Desc b;
                fillRVBounds(s, b, 2);
                if (b.boundsClass == "zero-width-dim" && (k != 3 || !o.allowZeroWidth))
                {
                    b.lo = {-1, -1};
                    b.hi = {2, 2};
                    b.boundsClass = "unit3";
                }
                if (k != 3 && (b.boundsClass == "tiny" || b.boundsClass == "huge"))
                {
                    b.lo = {0, 0};
                    b.hi = {10, 10};
                    b.boundsClass = "box10";
                }
                d.p1 = k == 3 ? 1.0 : s.weighted({2, 1, 1}) == 0 ? 1.0 : s.logreal(0.2, 5.0);
                d.symmetric = k == 11 && s.chance(64);
                if (k != 3)
                {
                    int fam = k == 12 ? 2 : d.symmetric ? 1 : 0;
                    if (o.curveFamily < 0)
                        o.curveFamily = fam;
                    else if (o.curveFamily != fam)
                    {
                        fam = o.curveFamily;
                        k = fam == 2 ? 12 : 11;
                        d.kind = k == 11 ? DUBINS : REEDSSHEPP;
                        d.symmetric = fam == 1;
                    }
                }
                std::shared_ptr<ob::SE2StateSpace> sp;
                if (k == 3)
                    sp = std::make_shared<ob::SE2StateSpace>();
                else if (k == 11)
                    sp = std::make_shared<ob::DubinsStateSpace>(d.p1, d.symmetric);
                else
                    sp = std::make_shared<ob::ReedsSheppStateSpace>(d.p1);
                sp->setBounds(toBounds(b));
                if (k == 3)
                    reweightBuiltin(s, *sp);
                d.space = sp;
                d.boundsClass = b.boundsClass;
                describeBuiltin(d);
                d.subs[0].boundsClass = b.boundsClass;
                break;
            }
            case 4:
            {
                d.kind = SE3;
                Desc b;
                fillRVBounds(s, b, 3);
                if (b.boundsClass == "zero-width-dim" && !o.allowZeroWidth)
                {
                    b.lo = {-1, -1, -1};
                    b.hi = {2, 2, 2};
                    b.boundsClass = "unit3";
                }
                auto sp = std::make_shared<ob::SE3StateSpace>();
                sp->setBounds(toBounds(b));
                reweightBuiltin(s, *sp);
                d.space = sp;
                describeBuiltin(d);
                d.subs[0].boundsClass = b.boundsClass;
                break;
            }
            case 5:
            {
                d.kind = TIME;
                auto sp = std::make_shared<ob::TimeStateSpace>();
                d.bounded = !(o.allowUnboundedTime && s.chance(64));
                if (d.bounded)
                {
                    d.tlo = s.flag() ? 0 : -3;
                    d.thi = d.tlo + (s.flag() ? 1 : 1000);
                    sp->setBounds(d.tlo, d.thi);
                }
                d.space = sp;
                break;
            }
            case 6:
            {
                d.kind = DISCRETE;
                d.dlo = s.in(-3, 3);
                d.dhi = d.dlo + s.in(1, 9);
                d.space = std::make_shared<ob::DiscreteStateSpace>(d.dlo, d.dhi);
                break;
            }
            case 7:
                d.kind = TORUS;
                d.p1 = s.flag() ? 1.0 : s.real(1, 4);
                d.p2 = s.flag() ? 0.5 : s.real(0.1, 0.9);
                d.space = std::make_shared<ob::TorusStateSpace>(d.p1, d.p2);
                describeBuiltin(d);
                break;
            case 8:
                d.kind = SPHERE;
                d.p1 = s.weighted({2, 1, 1}) == 0 ? 1.0 : s.logreal(0.2, 5.0);
                d.space = std::make_shared<ob::SphereStateSpace>(d.p1);
                describeBuiltin(d);
                break;
            case 9:
                d.kind = MOBIUS;
                d.p1 = s.flag() ? 1.0 : s.real(0.2, 2);
                d.p2 = s.flag() ? 1.0 : s.real(0.5, 3);
                d.space = std::make_shared<ob::MobiusStateSpace>(d.p1, d.p2);
                describeBuiltin(d);
                break;
            case 10:
                d.kind = KLEIN;
                d.space = std::make_shared<ob::KleinBottleStateSpace>();
                describeBuiltin(d);
                break;
            case 13:
            {
                d.kind = COMPOUND;
                auto sp = std::make_shared<ob::CompoundStateSpace>();
                int n = s.in(1, 4);
                for (int i = 0; i < n; ++i)
                {
                    Desc sub = genSpace(s, o, depth + 1);
                    static const double ws[] = {1.0, 7.5, 1e-3, 0.0};
                    double w = ws[s.weighted({6, 3, 2, o.allowZeroWeight ? 1 : 0})];
                    sp->addSubspace(sub.space, w);
                    d.subs.push_back(sub);
                    d.w.push_back(w);
                }
                d.space = sp;
                break;
            }
            default:
            {
                d.kind = WRAPPER;
                Desc sub = genSpace(s, o, depth + 1);
                if (depth > 0 && isCompoundLike(sub) && o.ctx && o.ctx->isKnown(KEY_WRAPPER_DOWNCAST))
                {
                    o.ctx->knownHits[KEY_WRAPPER_DOWNCAST]++;
                    sub = Desc();
                    sub.kind = SO2;
                    sub.depth = depth + 1;
                    sub.space = std::make_shared<ob::SO2StateSpace>();
                }
                d.space = std::make_shared<ob::WrapperStateSpace>(sub.space);
                d.subs.push_back(sub);
                d.w.push_back(1.0);
                break;
            }
        }
        return d;
    }

    // ---- typed traversal ----------------------------------------------------------------------------------------
    // calls f(leafDesc, leafState, effectiveWeight) for every leaf (RV, SO2, SO3, TIME, DISCRETE) of the state
    template <class St, class F>
    void walk(const Desc &d, St *st, double weight, F &&f)
    {
        if (d.kind == WRAPPER)
        {
            using W = std::conditional_t<std::is_const<St>::value, const ob::WrapperStateSpace::StateType, ob::WrapperStateSpace::StateType>;
            walk(d.subs[0], static_cast<W *>(st)->getState(), weight, f);
        }
        else if (d.compoundLayout())
        {
            using C = std::conditional_t<std::is_const<St>::value, const ob::CompoundState, ob::CompoundState>;
            auto *cs = static_cast<C *>(st);
            for (size_t i = 0; i < d.subs.size(); ++i)
            {
                using Sub = std::conditional_t<std::is_const<St>::value, const ob::State, ob::State>;
                walk(d.subs[i], static_cast<Sub *>(cs->components[i]), d.kind == COMPOUND || d.kind == SE2 || d.kind == SE3 ? weight * d.w[i] : weight, f);
            }
        }
        else
            f(d, st, weight);
    }

    // visits every node (not only leaves) of the descriptor tree with the corresponding sub-states of two states
    template <class F>
    void walkNodes2(const Desc &d, const ob::State *a, const ob::State *b, F &&f)
    {
        f(d, a, b);
        if (d.kind == WRAPPER)
            walkNodes2(d.subs[0], a->as<ob::WrapperStateSpace::StateType>()->getState(), b->as<ob::WrapperStateSpace::StateType>()->getState(), f);
        else if (d.compoundLayout())
            for (size_t i = 0; i < d.subs.size(); ++i)
                walkNodes2(d.subs[i], static_cast<const ob::CompoundState *>(a)->components[i], static_cast<const ob::CompoundState *>(b)->components[i], f);
    }
    template <class F>
    void walkNodesMut(const Desc &d, ob::State *a, F &&f)
    {
        f(d, a);
        if (d.kind == WRAPPER)
            walkNodesMut(d.subs[0], a->as<ob::WrapperStateSpace::StateType>()->getState(), f);
        else if (d.compoundLayout())
            for (size_t i = 0; i < d.subs.size(); ++i)
                walkNodesMut(d.subs[i], static_cast<ob::CompoundState *>(a)->components[i], f);
    }

    inline std::string show(const Desc &d, const ob::State *st)
    {
        std::string r = "<";
        walk(d, st, 1.0,
             [&](const Desc &l, const ob::State *x, double)
             {
                 switch (l.kind)
                 {
                     case RV:
                         for (size_t i = 0; i < l.lo.size(); ++i)
                             r += vf::fmt("%.17g ", x->as<ob::RealVectorStateSpace::StateType>()->values[i]);
                         break;
                     case SO2:
                         r += vf::fmt("so2:%.17g ", x->as<ob::SO2StateSpace::StateType>()->value);
                         break;
                     case SO3:
                     {
                         auto *q = x->as<ob::SO3StateSpace::StateType>();
                         r += vf::fmt("q(%.17g,%.17g,%.17g,%.17g) ", q->x, q->y, q->z, q->w);
                         break;
                     }
                     case TIME:
                         r += vf::fmt("t:%.17g ", x->as<ob::TimeStateSpace::StateType>()->position);
                         break;
                     case DISCRETE:
                         r += vf::fmt("d:%d ", x->as<ob::DiscreteStateSpace::StateType>()->value);
                         break;
                     default:
                         break;
                 }
             });
        r += ">";
        return r;
    }

    inline double ulp(double x)
    {
        x = std::fabs(x);
        return std::nextafter(x, INFINITY) - x;
    }

    // "inside bounds" per DESIGN section 3: decided on raw coordinates, never through the space's own distance.
    // Returns "" when fine, else a description of the first offending leaf value.
    inline std::string boundsViolation(const Desc &d, const ob::State *st, double ulps = 4)
    {
        std::string bad;
        walk(d, st, 1.0,
             [&](const Desc &l, const ob::State *x, double)
             {
                 if (!bad.empty())
                     return;
                 switch (l.kind)
                 {
                     case RV:
                         for (size_t i = 0; i < l.lo.size(); ++i)
                         {
                             double v = x->as<ob::RealVectorStateSpace::StateType>()->values[i];
                             double slack = ulps * std::max(ulp(l.lo[i]), ulp(l.hi[i]));
                             slack = std::max(slack, ulps * ulp(v));
                             if (!(v >= l.lo[i] - slack && v <= l.hi[i] + slack))
                                 bad = vf::fmt("R^n coordinate %zu = %.17g outside [%.17g, %.17g]", i, v, l.lo[i], l.hi[i]);
                         }
                         break;
                     case SO2:
                     {
                         double v = x->as<ob::SO2StateSpace::StateType>()->value;
                         if (!(v >= -PI - ulps * ulp(PI) && v <= PI + ulps * ulp(PI)))
                             bad = vf::fmt("SO(2) angle %.17g outside [-pi, pi]", v);
                         break;
                     }
                     case SO3:
                     {
                         auto *q = x->as<ob::SO3StateSpace::StateType>();
                         double n = std::sqrt(q->x * q->x + q->y * q->y + q->z * q->z + q->w * q->w);
                         if (!(std::fabs(n - 1.0) < 2e-9))
                             bad = vf::fmt("quaternion norm %.17g", n);
                         break;
                     }
                     case TIME:
                     {
                         double v = x->as<ob::TimeStateSpace::StateType>()->position;
                         if (!std::isfinite(v))
                             bad = "time not finite";
                         else if (l.bounded)
                         {
                             double slack = ulps * std::max({ulp(l.tlo), ulp(l.thi), ulp(v)});
                             if (!(v >= l.tlo - slack && v <= l.thi + slack))
                                 bad = vf::fmt("time %.17g outside [%.17g, %.17g]", v, l.tlo, l.thi);
                         }
                         break;
                     }
                     case DISCRETE:
                     {
                         int v = x->as<ob::DiscreteStateSpace::StateType>()->value;
                         if (v < l.dlo || v > l.dhi)
                             bad = vf::fmt("discrete value %d outside [%d, %d]", v, l.dlo, l.dhi);
                         break;
                     }
                     default:
                         break;
                 }
             });
        return bad;
    }

    inline bool allFinite(const Desc &d, const ob::State *st)
    {
        bool ok = true;
        walk(d, st, 1.0,
             [&](const Desc &l, const ob::State *x, double)
             {
                 switch (l.kind)
                 {
                     case RV:
                         for (size_t i = 0; i < l.lo.size(); ++i)
                             ok &= std::isfinite(x->as<ob::RealVectorStateSpace::StateType>()->values[i]);
                         break;
                     case SO2:
                         ok &= std::isfinite(x->as<ob::SO2StateSpace::StateType>()->value);
                         break;
                     case SO3:
                     {
                         auto *q = x->as<ob::SO3StateSpace::StateType>();
                         ok &= std::isfinite(q->x) && std::isfinite(q->y) && std::isfinite(q->z) && std::isfinite(q->w);
                         break;
                     }
                     case TIME:
                         ok &= std::isfinite(x->as<ob::TimeStateSpace::StateType>()->position);
                         break;
                     default:
                         break;
                 }
             });
        return ok;
    }

    inline double wrapPi(double a)
    {
        a = std::fmod(a, 2 * PI);
        if (a > PI)
            a -= 2 * PI;
        if (a < -PI)
            a += 2 * PI;
        return a;
    }

    // Harness-side separation test (DESIGN section 3): true when some positively weighted leaf differs by more than
    // `factor` times that leaf's numerical resolution. Independent of the library's distance / equalStates.
    inline bool separated(const Desc &d, const ob::State *a, const ob::State *b, double factor = 10)
    {
        struct Leaf
        {
            const Desc *l;
            const ob::State *s;
            double w;
        };
        std::vector<Leaf> la, lb;
        walk(d, a, 1.0, [&](const Desc &l, const ob::State *x, double w) { la.push_back({&l, x, w}); });
        walk(d, b, 1.0, [&](const Desc &l, const ob::State *x, double w) { lb.push_back({&l, x, w}); });
        for (size_t k = 0; k < la.size(); ++k)
        {
            if (!(la[k].w > 0))
                continue;
            const Desc &l = *la[k].l;
            switch (l.kind)
            {
                case RV:
                    for (size_t i = 0; i < l.lo.size(); ++i)
                    {
                        double x = la[k].s->as<ob::RealVectorStateSpace::StateType>()->values[i];
                        double y = lb[k].s->as<ob::RealVectorStateSpace::StateType>()->values[i];
                        double scale = std::max({1.0, std::fabs(x), std::fabs(y), std::fabs(l.lo[i]), std::fabs(l.hi[i])});
                        if (std::fabs(x - y) > factor * 64 * 2.2e-16 * scale)
                            return true;
                    }
                    break;
                case SO2:
                {
                    double x = la[k].s->as<ob::SO2StateSpace::StateType>()->value, y = lb[k].s->as<ob::SO2StateSpace::StateType>()->value;
                    if (std::fabs(wrapPi(x - y)) > factor * 64 * 2.2e-16 * 4)
                        return true;
                    break;
                }
                case SO3:
                {
                    auto *p = la[k].s->as<ob::SO3StateSpace::StateType>();
                    auto *q = lb[k].s->as<ob::SO3StateSpace::StateType>();
                    double dot = std::fabs(p->x * q->x + p->y * q->y + p->z * q->z + p->w * q->w);
                    double ang = dot >= 1 ? 0 : std::acos(dot);
                    if (ang > factor * 4.5e-5)
                        return true;
                    break;
                }
                case TIME:
                {
                    double x = la[k].s->as<ob::TimeStateSpace::StateType>()->position, y = lb[k].s->as<ob::TimeStateSpace::StateType>()->position;
                    if (std::fabs(x - y) > factor * 64 * 2.2e-16 * std::max({1.0, std::fabs(x), std::fabs(y)}))
                        return true;
                    break;
                }
                case DISCRETE:
                    if (la[k].s->as<ob::DiscreteStateSpace::StateType>()->value != lb[k].s->as<ob::DiscreteStateSpace::StateType>()->value)
                        return true;
                    break;
                default:
                    break;
            }
        }
        return false;
    }

    // Largest leaf-wise difference between two states, per kind, measured by the harness on raw values
    struct LeafDiff
    {
        double rv = 0;    // |delta| / max(1, |bounds|, |values|)
        double ang = 0;   // wrapped |delta| of SO(2) angles
        double quat = 0;  // acos|<p,q>|
        double time = 0;  // relative like rv
        int disc = 0;
        bool nan = false;
    };
    inline LeafDiff leafDiff(const Desc &d, const ob::State *a, const ob::State *b)
    {
        struct Leaf
        {
            const Desc *l;
            const ob::State *s;
        };
        std::vector<Leaf> la, lb;
        walk(d, a, 1.0, [&](const Desc &l, const ob::State *x, double) { la.push_back({&l, x}); });
        walk(d, b, 1.0, [&](const Desc &l, const ob::State *x, double) { lb.push_back({&l, x}); });
        LeafDiff r;
        for (size_t k = 0; k < la.size(); ++k)
        {
            const Desc &l = *la[k].l;
            switch (l.kind)
            {
                case RV:
                    for (size_t i = 0; i < l.lo.size(); ++i)
                    {
                        double x = la[k].s->as<ob::RealVectorStateSpace::StateType>()->values[i];
                        double y = lb[k].s->as<ob::RealVectorStateSpace::StateType>()->values[i];
                        double scale = std::max({1.0, std::fabs(x), std::fabs(y), std::fabs(l.lo[i]), std::fabs(l.hi[i])});
                        if (!(std::isfinite(x) && std::isfinite(y)))
                            r.nan = true;
                        r.rv = std::max(r.rv, std::fabs(x - y) / scale);
                    }
                    break;
                case SO2:
                {
                    double x = la[k].s->as<ob::SO2StateSpace::StateType>()->value, y = lb[k].s->as<ob::SO2StateSpace::StateType>()->value;
                    if (!(std::isfinite(x) && std::isfinite(y)))
                        r.nan = true;
                    r.ang = std::max(r.ang, std::fabs(wrapPi(x - y)));
                    break;
                }
                case SO3:
                {
                    auto *p = la[k].s->as<ob::SO3StateSpace::StateType>();
                    auto *q = lb[k].s->as<ob::SO3StateSpace::StateType>();
                    double dot = std::fabs(p->x * q->x + p->y * q->y + p->z * q->z + p->w * q->w);
                    if (!std::isfinite(dot))
                        r.nan = true;
                    r.quat = std::max(r.quat, dot >= 1 ? 0 : std::acos(dot));
                    break;
                }
                case TIME:
                {
                    double x = la[k].s->as<ob::TimeStateSpace::StateType>()->position, y = lb[k].s->as<ob::TimeStateSpace::StateType>()->position;
                    if (!(std::isfinite(x) && std::isfinite(y)))
                        r.nan = true;
                    r.time = std::max(r.time, std::fabs(x - y) / std::max({1.0, std::fabs(x), std::fabs(y)}));
                    break;
                }
                case DISCRETE:
                    r.disc = std::max(r.disc, std::abs(la[k].s->as<ob::DiscreteStateSpace::StateType>()->value -
                                                       lb[k].s->as<ob::DiscreteStateSpace::StateType>()->value));
                    break;
                default:
                    break;
            }
        }
        return r;
    }
    inline std::string serialImage(const ob::StateSpacePtr &sp, const ob::State *s)
    {
        std::string buf(sp->getSerializationLength(), '\0');
        if (!buf.empty())
            sp->serialize(&buf[0], s);
        return buf;
    }

    // magnitude scale of the coordinates involved (for tolerances)
    inline double coordScale(const Desc &d)
    {
        double sc = 4;  // angles
        std::function<void(const Desc &)> rec = [&](const Desc &x)
        {
            for (size_t i = 0; i < x.lo.size(); ++i)
                sc = std::max({sc, std::fabs(x.lo[i]), std::fabs(x.hi[i])});
            if (x.kind == TIME && x.bounded)
                sc = std::max({sc, std::fabs(x.tlo), std::fabs(x.thi)});
            if (x.kind == DISCRETE)
                sc = std::max({sc, (double)std::abs(x.dlo), (double)std::abs(x.dhi)});
            for (auto &s : x.subs)
                rec(s);
        };
        rec(d);
        return sc;
    }
    inline int so3Count(const Desc &d)
    {
        int n = d.kind == SO3 ? 1 : 0;
        for (auto &s : d.subs)
            n += so3Count(s);
        return n;
    }
    inline double weightSum(const Desc &d)  // sum of effective weights of SO3 leaves etc. (upper bound on amplification)
    {
        if (d.subs.empty())
            return 1;
        double r = 0;
        for (size_t i = 0; i < d.subs.size(); ++i)
            r += std::max(1.0, d.w.empty() ? 1.0 : d.w[i]) * weightSum(d.subs[i]);
        return r;
    }

    // ---- state construction ------------------------------------------------------------------------------------
    // Every coordinate comes from the choice bytes; classes of special values are frequent by construction.
    inline double genCoord(vf::Src &s, double lo, double hi)
    {
        switch (s.weighted({8, 2, 2, 1, 1, 1}))
        {
            case 0:
                return lo + (hi - lo) * s.unit();
            case 1:
                return lo;
            case 2:
                return hi;
            case 3:
                return std::nextafter(lo, hi);
            case 4:
                return std::nextafter(hi, lo);
            default:
                return 0.5 * (lo + hi);
        }
    }
    inline double genAngle(vf::Src &s)
    {
        switch (s.weighted({8, 2, 2, 1, 1, 1, 1}))
        {
            case 0:
                return -PI + 2 * PI * s.unit() * (1 - 1e-16);
            case 1:
                return -PI;
            case 2:
                return std::nextafter(PI, 0.0);
            case 3:
                return -PI + s.logreal(1e-12, 1e-3);
            case 4:
                return PI - s.logreal(1e-12, 1e-3);
            case 5:
                return 0;
            default:
                return (s.flag() ? 1 : -1) * PI / 2;
        }
    }
    inline void normalizeQ(ob::SO3StateSpace::StateType *q)
    {
        double n = std::sqrt(q->x * q->x + q->y * q->y + q->z * q->z + q->w * q->w);
        if (n < 1e-9)
        {
            q->setIdentity();
            return;
        }
        q->x /= n;
        q->y /= n;
        q->z /= n;
        q->w /= n;
    }
    inline void genQuat(vf::Src &s, ob::SO3StateSpace::StateType *q)
    {
        switch (s.weighted({8, 1, 2, 1}))
        {
            case 0:
                q->x = s.real(-1, 1);
                q->y = s.real(-1, 1);
                q->z = s.real(-1, 1);
                q->w = s.real(-1, 1);
                normalizeQ(q);
                break;
            case 1:
                q->setIdentity();
                break;
            case 2:
            {
                // 180 degree rotation about a coordinate axis or w = 0 generally
                q->x = s.real(-1, 1);
                q->y = s.real(-1, 1);
                q->z = s.real(-1, 1);
                q->w = 0;
                normalizeQ(q);
                break;
            }
            default:
                q->setAxisAngle(s.flag() ? 1 : 0, s.flag() ? 1 : 0, 1, genAngle(s));
        }
    }

    inline void genStateInto(vf::Src &s, const Desc &d, ob::State *st)
    {
        walk(d, st, 1.0,
             [&](const Desc &l, ob::State *x, double)
             {
                 switch (l.kind)
                 {
                     case RV:
                         for (size_t i = 0; i < l.lo.size(); ++i)
                             x->as<ob::RealVectorStateSpace::StateType>()->values[i] = genCoord(s, l.lo[i], l.hi[i]);
                         break;
                     case SO2:
                         x->as<ob::SO2StateSpace::StateType>()->value = genAngle(s);
                         break;
                     case SO3:
                         genQuat(s, x->as<ob::SO3StateSpace::StateType>());
                         break;
                     case TIME:
                         x->as<ob::TimeStateSpace::StateType>()->position = l.bounded ? genCoord(s, l.tlo, l.thi) : s.real(-100, 100);
                         break;
                     case DISCRETE:
                         x->as<ob::DiscreteStateSpace::StateType>()->value = s.in(l.dlo, l.dhi);
                         break;
                     default:
                         break;
                 }
             });
    }

    // A second state related to `base` in an adversarial way. Returns the class name.
    inline const char *genRelatedInto(vf::Src &s, const Desc &d, ob::State *base, ob::State *out)
    {
        static const char *names[] = {"independent", "identical", "adjacent-1ulp", "nearly-coincident", "antipodal/seam", "one-component-differs"};
        size_t cls = s.weighted({6, 1, 2, 3, 4, 2});
        if (cls == 0)
        {
            genStateInto(s, d, out);
            return names[0];
        }
        bool seam = cls == 4 && d.contains(SO2) && s.flag();
        if (seam)  // put every angle of the base just below +pi; the partner goes just above -pi
            walk(d, base, 1.0,
                 [&](const Desc &l, ob::State *x, double)
                 {
                     if (l.kind == SO2)
                         x->as<ob::SO2StateSpace::StateType>()->value = std::min(std::nextafter(PI, 0.0), PI - s.logreal(1e-15, 1e-2));
                 });
        d.space->copyState(out, base);
        if (cls == 1)
            return names[1];
        int leafIdx = 0, nleaves = 0;
        walk(d, out, 1.0, [&](const Desc &, ob::State *, double) { ++nleaves; });
        int only = cls == 5 ? (int)s.pick(nleaves) : -1;
        walk(d, out, 1.0,
             [&](const Desc &l, ob::State *x, double)
             {
                 int me = leafIdx++;
                 if (only >= 0 && me != only)
                     return;
                 switch (l.kind)
                 {
                     case RV:
                         for (size_t i = 0; i < l.lo.size(); ++i)
                         {
                             double &v = x->as<ob::RealVectorStateSpace::StateType>()->values[i];
                             if (cls == 2)
                                 v = std::nextafter(v, s.flag() ? l.hi[i] : l.lo[i]);
                             else if (cls == 3)
                                 v = std::min(l.hi[i], std::max(l.lo[i], v + (s.flag() ? 1 : -1) * s.logreal(1e-12, 1e-4) * std::max(1e-3, l.hi[i] - l.lo[i])));
                             else if (cls == 4)
                                 v = l.lo[i] + l.hi[i] - v;  // mirrored across the box
                             else
                                 v = genCoord(s, l.lo[i], l.hi[i]);
                         }
                         break;
                     case SO2:
                     {
                         double &v = x->as<ob::SO2StateSpace::StateType>()->value;
                         if (cls == 2)
                             v = (v <= -PI) ? std::nextafter(PI, 0.0) : std::nextafter(v, s.flag() ? 4.0 : -4.0);  // may cross the seam
                         else if (cls == 3)
                             v = wrapPi(v + (s.flag() ? 1 : -1) * s.logreal(1e-12, 1e-4));
                         else if (cls == 4)
                         {
                             if (seam)
                                 v = -PI + s.logreal(1e-15, 1e-2);
                             else  // antipodal (+pi, with an optional tiny offset)
                                 v = wrapPi(v + PI + (s.flag() ? 0 : (s.flag() ? 1 : -1) * s.logreal(1e-12, 1e-6)));
                         }
                         else
                             v = genAngle(s);
                         if (v >= PI)
                             v = std::nextafter(PI, 0.0);
                         if (v < -PI)
                             v = -PI;
                         break;
                     }
                     case SO3:
                     {
                         auto *q = x->as<ob::SO3StateSpace::StateType>();
                         if (cls == 2 || cls == 3)
                         {
                             double e = cls == 2 ? 1e-9 : s.logreal(1e-9, 1e-4);
                             q->x += e * s.real(-1, 1);
                             q->y += e * s.real(-1, 1);
                             q->z += e * s.real(-1, 1);
                             normalizeQ(q);
                             if (s.chance(64))
                             {
                                 q->x = -q->x;
                                 q->y = -q->y;
                                 q->z = -q->z;
                                 q->w = -q->w;
                             }
                         }
                         else if (cls == 4)
                         {
                             if (s.flag())
                             {  // same rotation, opposite sign (double cover)
                                 q->x = -q->x;
                                 q->y = -q->y;
                                 q->z = -q->z;
                                 q->w = -q->w;
                             }
                             else
                             {  // 180 degrees away: multiply by a pure-vector quaternion
                                 double ax = q->x, ay = q->y, az = q->z, aw = q->w;
                                 // q * (1,0,0,0)  (rotation by pi about x)
                                 q->x = aw;
                                 q->y = az;
                                 q->z = -ay;
                                 q->w = -ax;
                                 (void)ax;
                             }
                         }
                         else
                             genQuat(s, q);
                         break;
                     }
                     case TIME:
                     {
                         double &v = x->as<ob::TimeStateSpace::StateType>()->position;
                         if (cls == 2)
                             v = std::nextafter(v, s.flag() ? 1e9 : -1e9);
                         else if (cls == 3)
                             v += (s.flag() ? 1 : -1) * s.logreal(1e-12, 1e-4);
                         else
                             v = l.bounded ? genCoord(s, l.tlo, l.thi) : s.real(-100, 100);
                         if (l.bounded)
                             v = std::min(l.thi, std::max(l.tlo, v));
                         break;
                     }
                     case DISCRETE:
                     {
                         int &v = x->as<ob::DiscreteStateSpace::StateType>()->value;
                         if (cls == 2 || cls == 3)
                             v = std::min(l.dhi, std::max(l.dlo, v + (s.flag() ? 1 : -1)));
                         else if (cls == 4)
                             v = l.dlo + l.dhi - v;
                         else
                             v = s.in(l.dlo, l.dhi);
                         break;
                     }
                     default:
                         break;
                 }
             });
        return names[cls];
    }

    struct StateHolder
    {
        ob::StateSpacePtr sp;
        std::vector<ob::State *> owned;
        explicit StateHolder(ob::StateSpacePtr s) : sp(std::move(s))
        {
        }
        ob::State *alloc()
        {
            owned.push_back(sp->allocState());
            return owned.back();
        }
        ~StateHolder()
        {
            for (auto *s : owned)
                sp->freeState(s);
        }
    };

    // setup() throws by contract when the total extent is 0: counted as a clean rejection
    // Late growth: a real-vector component that is already part of a compound space gets one more dimension (legal as long as it
    // happens before setup() and before any state is allocated: top-down assembly of a space). Everything a compound derives from its
    // components - serialization layout, value locations, dimension, extent - must follow. Applied when the number of leaves of the
    // generated space is 2 modulo 3: decided by the decoded structure, no choice byte is consumed.
    inline int countLeaves(const Desc &d)
    {
        if (d.subs.empty())
            return 1;
        int n = 0;
        for (auto &x : d.subs)
            n += countLeaves(x);
        return n;
    }
    inline bool growFirstNestedRV(Desc &d, int depth)
    {
        if (d.kind == RV && depth > 0)
        {
            d.space->as<ob::RealVectorStateSpace>()->addDimension(d.lo.back(), d.hi.back());
            d.lo.push_back(d.lo.back());
            d.hi.push_back(d.hi.back());
            return true;
        }
        if (d.kind == COMPOUND)  // only user-assembled compounds: SE2 / SE3 and friends fix the dimension of their parts
            for (auto &x : d.subs)
                if (growFirstNestedRV(x, depth + 1))
                    return true;
        return false;
    }
    inline bool lateGrowth(Desc &d, vf::Ctx &c)
    {
        if (d.kind != COMPOUND || countLeaves(d) % 3 != 2)
            return false;
        bool done = growFirstNestedRV(d, 0);
        if (done)
            c.count("space:component-grown-after-composition");
        return done;
    }

    inline void setupOrSkip(Desc &d, vf::Ctx &c)
    {
        try
        {
            d.space->setup();
        }
        catch (const ompl::Exception &e)
        {
            c.count("space-setup-rejected");
            throw vf::Skip{"setup rejected: zero extent"};
        }
    }
}  // namespace gen
