// Shared generators and oracles for planner-level properties (C01, C03, C04, C17, C19, C20):
// planning spaces, obstacle environments with an exact clearance function, problems (normal and abnormal),
// the planner registry with capability flags, a call-counting termination condition and the path oracle.
#pragma once
#include "../core/verif.h"
#include "ompl/base/Goal.h"
#include "ompl/base/PlannerTerminationCondition.h"
#include "ompl/base/ProblemDefinition.h"
#include "ompl/base/SpaceInformation.h"
#include "ompl/base/StateValidityChecker.h"
#include "ompl/base/goals/GoalRegion.h"
#include "ompl/base/goals/GoalState.h"
#include "ompl/base/goals/GoalStates.h"
#include "ompl/base/spaces/DubinsStateSpace.h"
#include "ompl/base/spaces/RealVectorStateProjections.h"
#include "ompl/base/spaces/RealVectorStateSpace.h"
#include "ompl/base/spaces/ReedsSheppStateSpace.h"
#include "ompl/base/spaces/SE2StateSpace.h"
#include "ompl/base/spaces/SE3StateSpace.h"
#include "ompl/base/spaces/SO2StateSpace.h"
#include "ompl/geometric/PathGeometric.h"
#include "ompl/geometric/planners/AnytimePathShortening.h"
#include "ompl/geometric/planners/cforest/CForest.h"
#include "ompl/geometric/planners/est/BiEST.h"
#include "ompl/geometric/planners/est/EST.h"
#include "ompl/geometric/planners/est/ProjEST.h"
#include "ompl/geometric/planners/fmt/BFMT.h"
#include "ompl/geometric/planners/fmt/FMT.h"
#include "ompl/geometric/planners/informedtrees/ABITstar.h"
#include "ompl/geometric/planners/informedtrees/AITstar.h"
#include "ompl/geometric/planners/informedtrees/BITstar.h"
#include "ompl/geometric/planners/informedtrees/EIRMstar.h"
#include "ompl/geometric/planners/informedtrees/EITstar.h"
#include "ompl/geometric/planners/kpiece/BKPIECE1.h"
#include "ompl/geometric/planners/kpiece/KPIECE1.h"
#include "ompl/geometric/planners/kpiece/LBKPIECE1.h"
#include "ompl/geometric/planners/pdst/PDST.h"
#include "ompl/geometric/planners/prm/LazyPRM.h"
#include "ompl/geometric/planners/prm/LazyPRMstar.h"
#include "ompl/geometric/planners/prm/PRM.h"
#include "ompl/geometric/planners/prm/PRMstar.h"
#include "ompl/geometric/planners/prm/SPARS.h"
#include "ompl/geometric/planners/prm/SPARStwo.h"
#include "ompl/geometric/planners/rlrt/BiRLRT.h"
#include "ompl/geometric/planners/rlrt/RLRT.h"
#include "ompl/geometric/planners/rrt/BiTRRT.h"
#include "ompl/geometric/planners/rrt/InformedRRTstar.h"
#include "ompl/geometric/planners/rrt/LBTRRT.h"
#include "ompl/geometric/planners/rrt/LazyLBTRRT.h"
#include "ompl/geometric/planners/rrt/LazyRRT.h"
#include "ompl/geometric/planners/rrt/RRT.h"
#include "ompl/geometric/planners/rrt/RRTConnect.h"
#include "ompl/geometric/planners/rrt/RRTXstatic.h"
#include "ompl/geometric/planners/rrt/RRTsharp.h"
#include "ompl/geometric/planners/rrt/RRTstar.h"
#include "ompl/geometric/planners/rrt/SORRTstar.h"
#include "ompl/geometric/planners/rrt/TRRT.h"
#include "ompl/geometric/planners/rrt/pRRT.h"
#include "ompl/geometric/planners/sbl/SBL.h"
#include "ompl/geometric/planners/sbl/pSBL.h"
#include "ompl/geometric/planners/sst/SST.h"
#include "ompl/geometric/planners/stride/STRIDE.h"
#include "ompl/multilevel/planners/qmp/QMP.h"
#include "ompl/multilevel/planners/qmp/QMPStar.h"
#include "ompl/multilevel/planners/qrrt/QRRT.h"
#include "ompl/multilevel/planners/qrrt/QRRTStar.h"
#include "ompl/util/Console.h"
#include "ompl/util/Exception.h"
#include "ompl/util/RandomNumbers.h"
#include <atomic>
#include <functional>
#include <memory>

namespace plan
{
    namespace ob = ompl::base;
    namespace og = ompl::geometric;
    static const double PI = 3.14159265358979323846;

    // ---------------------------------------------------------------------------------------------------------
    // Obstacles live in the (x, y) position coordinates of every planning space (cylinders / prisms in higher dimensions).
    struct Obstacle
    {
        bool ball;
        double cx, cy, r;        // ball
        double x0, y0, x1, y1;   // box
        double sdist(double x, double y) const  // signed distance, > 0 outside
        {
            if (ball)
                return std::hypot(x - cx, y - cy) - r;
            double dx = std::max({x0 - x, 0.0, x - x1}), dy = std::max({y0 - y, 0.0, y - y1});
            if (dx > 0 || dy > 0)
                return std::hypot(dx, dy);
            return -std::min({x - x0, x1 - x, y - y0, y1 - y});
        }
    };
    struct Env
    {
        std::vector<Obstacle> obs;
        bool everythingInvalid = false;  // "everything invalid except listed states" scenarios use obstacles instead; kept for completeness
        double clearance(double x, double y) const
        {
            double c = 1e9;
            for (auto &o : obs)
                c = std::min(c, o.sdist(x, y));
            return c;
        }
        bool valid(double x, double y) const
        {
            return clearance(x, y) > 0;
        }
        std::string str() const
        {
            std::string s;
            for (auto &o : obs)
                s += o.ball ? vf::fmt("ball(%.3g,%.3g;r=%.3g) ", o.cx, o.cy, o.r) : vf::fmt("box[%.3g,%.3g]x[%.3g,%.3g] ", o.x0, o.x1, o.y0, o.y1);
            return s.empty() ? "free" : s;
        }
    };

    enum SpaceKind
    {
        SP_RN,
        SP_SE2,
        SP_SE3,
        SP_COMPOUND,  // weighted R^2 x SO(2) x R^1
        SP_DUBINS,
        SP_REEDSSHEPP
    };
    struct PlanSpace
    {
        SpaceKind kind = SP_RN;
        unsigned n = 2;  // R^n dimension
        double rho = 1;
        double lo = 0, hi = 10;
        ob::StateSpacePtr space;
        std::string name() const
        {
            switch (kind)
            {
                case SP_RN:
                    return "R^" + std::to_string(n);
                case SP_SE2:
                    return "SE2";
                case SP_SE3:
                    return "SE3";
                case SP_COMPOUND:
                    return "R2xSO2xR1(weights 1,0.5,0.25)";
                case SP_DUBINS:
                    return vf::fmt("Dubins(%.3g)", rho);
                default:
                    return vf::fmt("ReedsShepp(%.3g)", rho);
            }
        }
        void xy(const ob::State *s, double &x, double &y) const
        {
            switch (kind)
            {
                case SP_RN:
                    x = s->as<ob::RealVectorStateSpace::StateType>()->values[0];
                    y = s->as<ob::RealVectorStateSpace::StateType>()->values[1];
                    break;
                case SP_SE3:
                    x = s->as<ob::SE3StateSpace::StateType>()->getX();
                    y = s->as<ob::SE3StateSpace::StateType>()->getY();
                    break;
                case SP_COMPOUND:
                {
                    auto *r = s->as<ob::CompoundState>()->as<ob::RealVectorStateSpace::StateType>(0);
                    x = r->values[0];
                    y = r->values[1];
                    break;
                }
                default:
                    x = s->as<ob::SE2StateSpace::StateType>()->getX();
                    y = s->as<ob::SE2StateSpace::StateType>()->getY();
            }
        }
        // writes position (x,y) and fills the remaining coordinates from the choice bytes
        void makeState(vf::Src &s, ob::State *st, double x, double y) const
        {
            auto ang = [&]() { return -PI + 2 * PI * s.unit() * (1 - 1e-12); };
            switch (kind)
            {
                case SP_RN:
                {
                    auto *v = st->as<ob::RealVectorStateSpace::StateType>()->values;
                    v[0] = x;
                    v[1] = y;
                    for (unsigned i = 2; i < n; ++i)
                        v[i] = s.real(lo, hi);
                    break;
                }
                case SP_SE3:
                {
                    auto *q = st->as<ob::SE3StateSpace::StateType>();
                    q->setXYZ(x, y, s.real(lo, hi));
                    double a = s.real(-1, 1), b = s.real(-1, 1), c = s.real(-1, 1), d = s.real(-1, 1);
                    double nrm = std::sqrt(a * a + b * b + c * c + d * d);
                    if (nrm < 1e-6)
                        q->rotation().setIdentity();
                    else
                    {
                        q->rotation().x = a / nrm;
                        q->rotation().y = b / nrm;
                        q->rotation().z = c / nrm;
                        q->rotation().w = d / nrm;
                    }
                    break;
                }
                case SP_COMPOUND:
                {
                    auto *cs = st->as<ob::CompoundState>();
                    cs->as<ob::RealVectorStateSpace::StateType>(0)->values[0] = x;
                    cs->as<ob::RealVectorStateSpace::StateType>(0)->values[1] = y;
                    cs->as<ob::SO2StateSpace::StateType>(1)->value = ang();
                    cs->as<ob::RealVectorStateSpace::StateType>(2)->values[0] = s.real(lo, hi);
                    break;
                }
                default:
                {
                    auto *q = st->as<ob::SE2StateSpace::StateType>();
                    q->setXY(x, y);
                    q->setYaw(ang());
                }
            }
        }
        bool curveFamily() const
        {
            return kind == SP_DUBINS || kind == SP_REEDSSHEPP;
        }
    };

    inline PlanSpace genPlanSpace(vf::Src &s, bool allowCurves, int forceKind = -1)
    {
        PlanSpace p;
        size_t k = s.weighted({6, 3, 2, 2, allowCurves ? 2 : 0, allowCurves ? 1 : 0});
        if (forceKind >= 0)  // bespoke fixtures (C01B) pin the space family; the choice byte is still consumed
            k = (size_t)forceKind;
        // exploration aid (never set by ./check): VF_FORCE_SPACE=Dubins|ReedsShepp pins the space family of a sweep
        if (const char *fs = std::getenv("VF_FORCE_SPACE"))
            k = std::string(fs) == "Dubins" ? (size_t)SP_DUBINS : std::string(fs) == "ReedsShepp" ? (size_t)SP_REEDSSHEPP : k;
        p.kind = (SpaceKind)k;
        ob::RealVectorBounds b2(2);
        b2.setLow(p.lo);
        b2.setHigh(p.hi);
        switch (p.kind)
        {
            case SP_RN:
            {
                p.n = (unsigned)s.weighted({0, 0, 6, 2, 1, 1, 1});
                if (p.n < 2)
                    p.n = 2;
                auto sp = std::make_shared<ob::RealVectorStateSpace>(p.n);
                sp->setBounds(p.lo, p.hi);
                p.space = sp;
                break;
            }
            case SP_SE2:
            {
                auto sp = std::make_shared<ob::SE2StateSpace>();
                sp->setBounds(b2);
                p.space = sp;
                break;
            }
            case SP_SE3:
            {
                auto sp = std::make_shared<ob::SE3StateSpace>();
                ob::RealVectorBounds b3(3);
                b3.setLow(p.lo);
                b3.setHigh(p.hi);
                sp->setBounds(b3);
                p.space = sp;
                break;
            }
            case SP_COMPOUND:
            {
                auto sp = std::make_shared<ob::CompoundStateSpace>();
                auto r2 = std::make_shared<ob::RealVectorStateSpace>(2);
                r2->setBounds(p.lo, p.hi);
                auto r1 = std::make_shared<ob::RealVectorStateSpace>(1);
                r1->setBounds(p.lo, p.hi);
                sp->addSubspace(r2, 1.0);
                sp->addSubspace(std::make_shared<ob::SO2StateSpace>(), 0.5);
                sp->addSubspace(r1, 0.25);
                sp->lock();
                p.space = sp;
                break;
            }
            case SP_DUBINS:
            {
                p.rho = s.flag() ? 1.0 : s.real(0.4, 1.5);
                auto sp = std::make_shared<ob::DubinsStateSpace>(p.rho, false);
                sp->setBounds(b2);
                p.space = sp;
                break;
            }
            default:
            {
                p.rho = s.flag() ? 1.0 : s.real(0.4, 1.5);
                auto sp = std::make_shared<ob::ReedsSheppStateSpace>(p.rho);
                sp->setBounds(b2);
                p.space = sp;
            }
        }
        return p;
    }

    // default projection for the generic compound (every caller of projection-based planners must register one)
    class XYProjection : public ob::ProjectionEvaluator
    {
    public:
        const PlanSpace *ps;
        XYProjection(const ob::StateSpacePtr &sp, const PlanSpace *p) : ob::ProjectionEvaluator(sp), ps(p)
        {
        }
        unsigned int getDimension() const override
        {
            return 2;
        }
        void defaultCellSizes() override
        {
            cellSizes_ = {1.0, 1.0};
        }
        void project(const ob::State *state, Eigen::Ref<Eigen::VectorXd> projection) const override
        {
            double x, y;
            ps->xy(state, x, y);
            projection[0] = x;
            projection[1] = y;
        }
    };

    // the validity predicate handed to the library; the oracle uses Env / PlanSpace directly (its own copy of the logic)
    class Checker : public ob::StateValidityChecker
    {
    public:
        const PlanSpace *ps;
        const Env *env;
        mutable std::atomic<unsigned long> calls{0};
        Checker(const ob::SpaceInformationPtr &si, const PlanSpace *p, const Env *e) : ob::StateValidityChecker(si), ps(p), env(e)
        {
        }
        bool isValid(const ob::State *s) const override
        {
            ++calls;
            // curves of the Dubins family leave the box: callers add the bounds test (demos/GeometricCarPlanning.cpp)
            if (ps->curveFamily() && !ps->space->satisfiesBounds(s))
                return false;
            double x, y;
            ps->xy(s, x, y);
            return env->valid(x, y);
        }
        double clearance(const ob::State *s) const override
        {
            double x, y;
            ps->xy(s, x, y);
            return env->clearance(x, y);
        }
    };
    inline bool oracleValid(const PlanSpace &ps, const Env &env, const ob::State *s)
    {
        if (ps.curveFamily() && !ps.space->satisfiesBounds(s))
            return false;
        double x, y;
        ps.xy(s, x, y);
        return env.valid(x, y);
    }

    inline Env genEnv(vf::Src &s, const PlanSpace &ps)
    {
        Env e;
        int n = (int)s.weighted({2, 3, 3, 3, 2, 1, 1});
        for (int i = 0; i < n; ++i)
        {
            Obstacle o{};
            o.ball = s.flag();
            if (o.ball)
            {
                o.cx = s.real(ps.lo + 1, ps.hi - 1);
                o.cy = s.real(ps.lo + 1, ps.hi - 1);
                o.r = s.real(0.5, 2.2);
            }
            else
            {
                double w = s.real(0.5, 6), h = s.real(0.5, 6);
                if (s.flag())
                    (s.flag() ? w : h) = s.real(0.5, 1.0);  // wall-like
                o.x0 = s.real(ps.lo, ps.hi - w);
                o.y0 = s.real(ps.lo, ps.hi - h);
                o.x1 = o.x0 + w;
                o.y1 = o.y0 + h;
            }
            e.obs.push_back(o);
        }
        return e;
    }
    // remove every obstacle that covers (x,y) with the given margin: construction instead of rejection
    inline void clearAround(Env &e, double x, double y, double margin)
    {
        e.obs.erase(std::remove_if(e.obs.begin(), e.obs.end(), [&](const Obstacle &o) { return o.sdist(x, y) <= margin; }), e.obs.end());
    }

    // ---------------------------------------------------------------------------------------------------------
    // a goal region that is not sampleable (to reach UNRECOGNIZED_GOAL_TYPE)
    class PlainRegion : public ob::GoalRegion
    {
    public:
        ob::State *target;
        PlainRegion(const ob::SpaceInformationPtr &si, const ob::State *t) : ob::GoalRegion(si), target(si->cloneState(t))
        {
        }
        ~PlainRegion() override
        {
            si_->freeState(target);
        }
        double distanceGoal(const ob::State *st) const override
        {
            return si_->distance(st, target);
        }
    };

    enum Scenario
    {
        SC_NORMAL,
        SC_ALL_STARTS_INVALID,
        SC_ALL_GOALS_INVALID,
        SC_INVALID_FIRST,      // first of several starts and goals invalid, later ones valid
        SC_PLAIN_REGION,       // non-sampleable goal region
        SC_START_IN_GOAL,      // start satisfies the goal
        SC_START_OUT_OF_BOUNDS,
        SC_COUNT
    };
    inline const char *scenarioName(int sc)
    {
        static const char *n[] = {"normal", "all-starts-invalid", "all-goals-invalid", "invalid-first-start-and-goal", "non-sampleable-goal-region", "start-inside-goal",
                                  "start-out-of-bounds"};
        return n[sc];
    }

    struct Problem
    {
        PlanSpace ps;
        Env env;
        int scenario = SC_NORMAL;
        ob::SpaceInformationPtr si;
        std::shared_ptr<Checker> checker;
        ob::ProblemDefinitionPtr pdef;
        std::vector<ob::State *> starts, goals;  // owned by the problem
        std::vector<bool> startOk, goalOk;       // valid and in bounds, decided by the oracle
        double threshold = 0.1;
        double resolution = 0.01;
        int goalKind = 0;  // 0 GoalState, 1 GoalStates, 2 PlainRegion
        ~Problem()
        {
            if (si)
            {
                for (auto *s : starts)
                    si->freeState(s);
                for (auto *s : goals)
                    si->freeState(s);
            }
        }
        double r() const
        {
            return si->getStateSpace()->getLongestValidSegmentLength();
        }
        std::string str() const
        {
            std::string s = vf::fmt("%s scenario=%s res=%.4g thr=%.4g goal=%s env: %s\n", ps.name().c_str(), scenarioName(scenario), resolution, threshold,
                                    goalKind == 0 ? "GoalState" : goalKind == 1 ? "GoalStates" : "GoalRegion(non-sampleable)", env.str().c_str());
            auto pos = [&](const std::vector<ob::State *> &v, const std::vector<bool> &ok)
            {
                std::string r;
                for (size_t i = 0; i < v.size(); ++i)
                {
                    double x, y;
                    ps.xy(v[i], x, y);
                    r += vf::fmt("(%.4g,%.4g)%s ", x, y, ok[i] ? "" : "!");
                }
                return r;
            };
            s += " starts " + pos(starts, startOk) + " goals " + pos(goals, goalOk) + "\n";
            return s;
        }
    };

    struct ProblemOpts
    {
        bool allowCurves = false;
        bool allowAbnormal = true;
        bool onlySampleableGoal = false;
        bool forceSolvable = false;  // generous free space between start and goal not guaranteed; only forbids abnormal scenarios
        bool singleStart = false;    // LBTRRT / LazyLBTRRT refuse several start states ("currently not supported")
        int forceKind = -1;          // pin the space family (bespoke fixtures)
    };

    // Builds space information, environment, starts/goals and the problem definition.
    inline std::shared_ptr<Problem> genProblem(vf::Src &s, const ProblemOpts &o)
    {
        auto P = std::make_shared<Problem>();
        P->ps = genPlanSpace(s, o.allowCurves, o.forceKind);
        PlanSpace &ps = P->ps;
        P->resolution = s.flag() ? 0.01 : s.logreal(0.004, 0.05);
        ps.space->setLongestValidSegmentFraction(P->resolution);
        ps.space->setValidSegmentCountFactor((unsigned)s.weighted({0, 6, 1, 1}));
        if (ps.kind == SP_COMPOUND)
            ps.space->registerDefaultProjection(std::make_shared<XYProjection>(ps.space, &P->ps));
        P->si = std::make_shared<ob::SpaceInformation>(ps.space);
        P->env = genEnv(s, ps);
        P->scenario = (o.allowAbnormal && !o.forceSolvable && s.chance(80)) ? 1 + (int)s.pick(SC_COUNT - 1) : SC_NORMAL;
        if (o.onlySampleableGoal && P->scenario == SC_PLAIN_REGION)
            P->scenario = SC_NORMAL;
        int sc = P->scenario;
        // positions
        auto pos = [&](double &x, double &y)
        {
            x = s.real(ps.lo + 0.3, ps.hi - 0.3);
            y = s.real(ps.lo + 0.3, ps.hi - 0.3);
        };
        int nStarts = sc == SC_INVALID_FIRST ? 2 + (int)s.pick(2) : (s.chance(40) ? 2 : 1);
        if (o.singleStart)
            nStarts = 1;
        int nGoals = sc == SC_INVALID_FIRST ? 2 + (int)s.pick(2) : (s.chance(64) ? 2 + (int)s.pick(2) : 1);
        P->goalKind = sc == SC_PLAIN_REGION ? 2 : nGoals > 1 ? 1 : (s.flag() ? 0 : 1);
        if (P->goalKind != 1)
            nGoals = 1;
        // (a threshold of 0 makes the region empty: GoalRegion::isSatisfied is a strict '<'; the library default is epsilon)
        static const double thr[] = {0.1, 1e-3, 2.220446049250313e-16, 0.5, 2.5};
        P->threshold = thr[s.weighted({5, 2, 1, 2, sc == SC_START_IN_GOAL ? 6 : 1})];
        struct XY
        {
            double x, y;
        };
        std::vector<XY> sp(nStarts), gp(nGoals);
        for (auto &p : sp)
            pos(p.x, p.y);
        for (auto &p : gp)
            pos(p.x, p.y);
        if (sc == SC_START_IN_GOAL)
        {
            gp[0] = sp[0];
            if (P->threshold < 0.1)
                P->threshold = 0.5;
        }
        // in half of the cases something stands on the straight line between the first start and the first goal
        if (s.flag() && sc != SC_START_IN_GOAL)
        {
            double dx = gp[0].x - sp[0].x, dy = gp[0].y - sp[0].y, dd = std::hypot(dx, dy);
            if (dd > 2.0)
            {
                Obstacle ob{};
                double t = s.real(0.35, 0.65);
                if (s.flag())
                {
                    ob.ball = true;
                    ob.cx = sp[0].x + t * dx;
                    ob.cy = sp[0].y + t * dy;
                    ob.r = std::min(0.3 * dd, s.real(0.5, 2.0));
                }
                else
                {
                    // a wall perpendicular to the dominant direction of travel
                    ob.ball = false;
                    double cx = sp[0].x + t * dx, cy = sp[0].y + t * dy, half = s.real(1.0, 3.5), thick = s.real(0.25, 0.5);
                    if (std::fabs(dx) > std::fabs(dy))
                    {
                        ob.x0 = cx - thick;
                        ob.x1 = cx + thick;
                        ob.y0 = std::max(ps.lo, cy - half);
                        ob.y1 = std::min(ps.hi, cy + half);
                    }
                    else
                    {
                        ob.y0 = cy - thick;
                        ob.y1 = cy + thick;
                        ob.x0 = std::max(ps.lo, cx - half);
                        ob.x1 = std::min(ps.hi, cx + half);
                    }
                }
                P->env.obs.push_back(ob);
            }
        }
        // make the intended states valid (clear obstacles around them), the intended-invalid ones covered by an obstacle
        auto cover = [&](const XY &p)
        {
            Obstacle ob{};
            ob.ball = true;
            ob.cx = p.x;
            ob.cy = p.y;
            ob.r = 0.45;
            P->env.obs.push_back(ob);
        };
        std::vector<bool> sValid(nStarts, true), gValid(nGoals, true);
        if (sc == SC_ALL_STARTS_INVALID)
            sValid.assign(nStarts, false);
        if (sc == SC_ALL_GOALS_INVALID)
            gValid.assign(nGoals, false);
        if (sc == SC_INVALID_FIRST)
        {
            sValid[0] = nStarts > 1 ? false : true;
            gValid[0] = false;
        }
        for (int i = 0; i < nStarts; ++i)
            if (sValid[i])
                clearAround(P->env, sp[i].x, sp[i].y, 0.25);
        for (int i = 0; i < nGoals; ++i)
            if (gValid[i])
                clearAround(P->env, gp[i].x, gp[i].y, 0.25);
        for (int i = 0; i < nStarts; ++i)
            if (!sValid[i])
            {
                // keep valid states valid: move the invalid one away from them if needed
                bool clash = false;
                for (int j = 0; j < nStarts; ++j)
                    if (sValid[j] && std::hypot(sp[i].x - sp[j].x, sp[i].y - sp[j].y) < 0.8)
                        clash = true;
                for (int j = 0; j < nGoals; ++j)
                    if (gValid[j] && std::hypot(sp[i].x - gp[j].x, sp[i].y - gp[j].y) < 0.8)
                        clash = true;
                if (!clash)
                    cover(sp[i]);
                else
                    sValid[i] = true;  // could not be made invalid without hurting another state; oracle recomputes below anyway
            }
        for (int i = 0; i < nGoals; ++i)
            if (!gValid[i])
            {
                bool clash = false;
                for (int j = 0; j < nStarts; ++j)
                    if (sValid[j] && std::hypot(gp[i].x - sp[j].x, gp[i].y - sp[j].y) < 0.8)
                        clash = true;
                for (int j = 0; j < nGoals; ++j)
                    if (gValid[j] && std::hypot(gp[i].x - gp[j].x, gp[i].y - gp[j].y) < 0.8)
                        clash = true;
                if (!clash)
                    cover(gp[i]);
            }
        P->checker = std::make_shared<Checker>(P->si, &P->ps, &P->env);
        P->si->setStateValidityChecker(P->checker);
        P->si->setup();
        for (int i = 0; i < nStarts; ++i)
        {
            ob::State *st = P->si->allocState();
            ps.makeState(s, st, sp[i].x, sp[i].y);
            if (sc == SC_START_OUT_OF_BOUNDS && i == 0)
            {
                double x, y;
                ps.xy(st, x, y);
                ps.makeState(s, st, ps.hi + 1.5, y);
            }
            P->starts.push_back(st);
        }
        for (int i = 0; i < nGoals; ++i)
        {
            ob::State *st = P->si->allocState();
            ps.makeState(s, st, gp[i].x, gp[i].y);
            if (sc == SC_START_IN_GOAL && i == 0)
                P->si->copyState(st, P->starts[0]);
            P->goals.push_back(st);
        }
        for (auto *st : P->starts)
            P->startOk.push_back(ps.space->satisfiesBounds(st) && oracleValid(ps, P->env, st));
        for (auto *st : P->goals)
            P->goalOk.push_back(ps.space->satisfiesBounds(st) && oracleValid(ps, P->env, st));
        P->pdef = std::make_shared<ob::ProblemDefinition>(P->si);
        for (auto *st : P->starts)
            P->pdef->addStartState(st);
        if (P->goalKind == 0)
        {
            auto g = std::make_shared<ob::GoalState>(P->si);
            g->setState(P->goals[0]);
            g->setThreshold(P->threshold);
            P->pdef->setGoal(g);
        }
        else if (P->goalKind == 1)
        {
            auto g = std::make_shared<ob::GoalStates>(P->si);
            for (auto *st : P->goals)
                g->addState(st);
            g->setThreshold(P->threshold);
            P->pdef->setGoal(g);
        }
        else
        {
            auto g = std::make_shared<PlainRegion>(P->si, P->goals[0]);
            g->setThreshold(std::max(P->threshold, 0.1));
            P->threshold = g->getThreshold();
            P->pdef->setGoal(g);
        }
        return P;
    }

    // ---------------------------------------------------------------------------------------------------------
    // call-counting termination condition: fires from evaluation number `limit`+1 on, stays true
    struct CountPTC
    {
        std::shared_ptr<std::atomic<long>> calls = std::make_shared<std::atomic<long>>(0);
        long limit = 0;
        volatile long *progress = nullptr, *fired = nullptr;  // liveness channel to the supervising parent (may be null)
        explicit CountPTC(vf::Ctx *c = nullptr)
        {
            if (c)
            {
                progress = c->progress;
                fired = c->fired;
            }
        }
        ob::PlannerTerminationCondition make()
        {
            auto c = calls;
            long lim = limit;
            volatile long *pr = progress, *fi = fired;
            if (fi)
                *fi = 0;
            return ob::PlannerTerminationCondition(
                [c, lim, pr, fi]()
                {
                    long n = c->fetch_add(1);
                    if (pr)
                        *pr = *pr + 1;
                    bool r = n >= lim;
                    if (r && fi)
                        *fi = 1;
                    return r;
                });
        }
    };

    // ---------------------------------------------------------------------------------------------------------
    struct PlannerInfo
    {
        const char *name;
        std::function<ob::PlannerPtr(const ob::SpaceInformationPtr &)> make;
        bool strictRecheck;   // builds paths from individually validated state-to-state motions (not: PDST-style splitters, the
                              // "intermediate states" variants whose vertices are interpolated along a validated motion, multilevel, APS)
        bool bidirectional;
        bool directedOk;      // direction-aware: may be used on Dubins / Reeds-Shepp. Decided by reading the code: single-tree growth from the start,
                              // or RRTConnect / BiTRRT (goal-tree motions are checked in the direction the path travels them).
                              // Not RRT*: its rewiring reuses the neighbour -> new check for the new -> neighbour edge
        bool optimizing;
        bool threaded;        // solve() spawns threads (decided by reading the code)
        double budgetScale;   // evaluation budget multiplier
        bool deferredCost;    // stored cost may be worse than the path's true cost (deferred propagation)
        bool multilevel;
        bool needsSampleableGoal;
    };

    template <class T>
    ob::PlannerPtr mk(const ob::SpaceInformationPtr &si)
    {
        return std::make_shared<T>(si);
    }
    template <class T>
    ob::PlannerPtr mkML(const ob::SpaceInformationPtr &si)
    {
        std::vector<ob::SpaceInformationPtr> v{si};
        return std::make_shared<T>(v);
    }
    inline ob::PlannerPtr mkRRTi(const ob::SpaceInformationPtr &si)
    {
        return std::make_shared<og::RRT>(si, true);
    }
    inline ob::PlannerPtr mkRRTCi(const ob::SpaceInformationPtr &si)
    {
        return std::make_shared<og::RRTConnect>(si, true);
    }
    inline ob::PlannerPtr mkCForest(const ob::SpaceInformationPtr &si)
    {
        auto p = std::make_shared<og::CForest>(si);
        p->setNumThreads(2);
        return p;
    }
    inline ob::PlannerPtr mkAPS(const ob::SpaceInformationPtr &si)
    {
        auto p = std::make_shared<og::AnytimePathShortening>(si);
        ob::PlannerPtr a = std::make_shared<og::RRT>(si), b = std::make_shared<og::RRTConnect>(si);
        p->addPlanner(a);
        p->addPlanner(b);
        return p;
    }
    inline ob::PlannerPtr mkpRRT(const ob::SpaceInformationPtr &si)
    {
        auto p = std::make_shared<og::pRRT>(si);
        p->setThreadCount(2);
        return p;
    }
    inline ob::PlannerPtr mkpSBL(const ob::SpaceInformationPtr &si)
    {
        auto p = std::make_shared<og::pSBL>(si);
        p->setThreadCount(2);
        return p;
    }

    inline const std::vector<PlannerInfo> &registry()
    {
        //                name            make                     strict bidir  directed optim threaded budget deferred multi sampleable
        static const std::vector<PlannerInfo> R = {
            {"RRT", mk<og::RRT>, true, false, true, false, false, 1, false, false, false},
            {"RRT(intermediate)", mkRRTi, false, false, true, false, false, 1, false, false, false},
            {"RRTConnect", mk<og::RRTConnect>, true, true, true, false, false, 1, false, false, true},
            {"RRTConnect(intermediate)", mkRRTCi, false, true, true, false, false, 1, false, false, true},
            {"RRTstar", mk<og::RRTstar>, true, false, false, true, false, 0.5, false, false, false},
            {"InformedRRTstar", mk<og::InformedRRTstar>, true, false, false, true, false, 0.5, false, false, false},
            {"SORRTstar", mk<og::SORRTstar>, true, false, false, true, false, 0.5, false, false, false},
            {"RRTsharp", mk<og::RRTsharp>, true, false, false, true, false, 0.5, true, false, false},
            {"RRTXstatic", mk<og::RRTXstatic>, true, false, false, true, false, 0.5, true, false, false},
            {"LBTRRT", mk<og::LBTRRT>, true, false, false, true, false, 0.5, true, false, false},
            {"LazyLBTRRT", mk<og::LazyLBTRRT>, true, false, false, true, false, 0.5, true, false, true},
            {"LazyRRT", mk<og::LazyRRT>, true, false, true, false, false, 1, false, false, false},
            {"TRRT", mk<og::TRRT>, true, false, true, true, false, 1, false, false, false},
            {"BiTRRT", mk<og::BiTRRT>, true, true, true, false, false, 1, false, false, true},
            {"pRRT", mkpRRT, true, false, false, false, true, 1, false, false, false},
            {"EST", mk<og::EST>, true, false, true, false, false, 1, false, false, false},
            {"BiEST", mk<og::BiEST>, true, true, false, false, false, 1, false, false, true},
            {"ProjEST", mk<og::ProjEST>, true, false, true, false, false, 1, false, false, false},
            {"KPIECE1", mk<og::KPIECE1>, true, false, true, false, false, 1, false, false, false},
            {"BKPIECE1", mk<og::BKPIECE1>, true, true, false, false, false, 1, false, false, true},
            {"LBKPIECE1", mk<og::LBKPIECE1>, true, true, false, false, false, 1, false, false, true},
            {"SBL", mk<og::SBL>, true, true, false, false, false, 1, false, false, true},
            {"pSBL", mkpSBL, true, true, false, false, true, 1, false, false, true},
            {"PDST", mk<og::PDST>, false, false, true, false, false, 1, false, false, false},
            {"STRIDE", mk<og::STRIDE>, true, false, true, false, false, 1, false, false, false},
            {"PRM", mk<og::PRM>, true, true, false, false, true, 0.3, false, false, true},
            {"PRMstar", mk<og::PRMstar>, true, true, false, true, true, 0.3, false, false, true},
            {"LazyPRM", mk<og::LazyPRM>, true, true, false, false, false, 0.3, false, false, true},
            {"LazyPRMstar", mk<og::LazyPRMstar>, true, true, false, true, false, 0.3, false, false, true},
            {"SPARS", mk<og::SPARS>, true, true, false, false, true, 0.3, false, false, true},
            {"SPARStwo", mk<og::SPARStwo>, true, true, false, false, true, 0.3, false, false, true},
            {"FMT", mk<og::FMT>, true, false, false, true, false, 1, false, false, true},
            {"BFMT", mk<og::BFMT>, true, true, false, true, false, 1, false, false, true},
            {"BITstar", mk<og::BITstar>, true, false, false, true, false, 0.5, false, false, true},
            {"ABITstar", mk<og::ABITstar>, true, false, false, true, false, 0.5, false, false, true},
            {"AITstar", mk<og::AITstar>, true, false, false, true, false, 0.5, false, false, true},
            {"EITstar", mk<og::EITstar>, true, false, false, true, false, 0.5, false, false, true},
            {"EIRMstar", mk<og::EIRMstar>, true, false, false, true, false, 0.5, false, false, true},
            {"SST", mk<og::SST>, true, false, true, true, false, 1, false, false, false},
            {"RLRT", mk<og::RLRT>, true, false, true, false, false, 1, false, false, false},
            {"BiRLRT", mk<og::BiRLRT>, true, true, false, false, false, 1, false, false, true},
            {"CForest", mkCForest, true, false, false, true, true, 0.5, true, false, false},
            {"AnytimePathShortening", mkAPS, false, false, false, true, true, 30, true, false, false},
            {"QRRT", mkML<ompl::multilevel::QRRT>, false, false, false, false, false, 1, false, true, true},
            {"QRRTStar", mkML<ompl::multilevel::QRRTStar>, false, false, false, true, false, 0.5, false, true, true},
            {"QMP", mkML<ompl::multilevel::QMP>, false, false, false, false, false, 0.5, false, true, true},
            {"QMPStar", mkML<ompl::multilevel::QMPStar>, false, false, false, true, false, 0.1, false, true, true},
        };
        return R;
    }
    inline int findPlanner(const std::string &name)
    {
        auto &R = registry();
        for (size_t i = 0; i < R.size(); ++i)
            if (name == R[i].name)
                return (int)i;
        return -1;
    }

    inline void setParamIfPresent(const ob::PlannerPtr &pl, const char *name, double v)
    {
        if (pl->params().hasParam(name))
            pl->params().setParam(name, std::to_string(v));
    }

    // Generated planner configuration: every parameter a planner declares with a range suggestion ("0,1", "lo:hi" or "lo:step:hi" -- the
    // library's own statement of the values it accepts) may be set to a value inside that range. Parameters that change what the
    // oracle may assume or that the harness sets itself are left alone: range / goal_bias (set by the caller), intermediate_states
    // (separate registry entries, not strictly re-checkable), thread counts and sub-planner lists (threaded variants are C19's),
    // and the GNAT shape parameters of STRIDE (mutually constrained). Switches ("0,1") are flipped; numeric parameters are moved by
    // at most a factor of two from their default.
    // Decoding: one byte decides whether the case is tuned at all (exhausted input -> untouched defaults), then one byte per parameter.
    // A setter that reports an error through the library's log (e.g. RRT*: "OrderedSampling requires either informed sampling or rejection
    // sampling") has told the caller that the combination is not supported; such a configuration is skipped, not judged.
    struct ErrorCapture : ompl::msg::OutputHandler
    {
        ompl::msg::OutputHandler *prev;
        ompl::msg::LogLevel prevLevel;
        std::string first;
        ErrorCapture() : prev(ompl::msg::getOutputHandler()), prevLevel(ompl::msg::getLogLevel())
        {
            ompl::msg::useOutputHandler(this);
            ompl::msg::setLogLevel(ompl::msg::LOG_ERROR);
        }
        ~ErrorCapture() override
        {
            ompl::msg::setLogLevel(prevLevel);
            if (prev)
                ompl::msg::useOutputHandler(prev);
            else
                ompl::msg::noOutputHandler();
        }
        void log(const std::string &text, ompl::msg::LogLevel level, const char *, int) override
        {
            if (level >= ompl::msg::LOG_ERROR && first.empty())
                first = text;
        }
    };

    inline std::string tuneParams(vf::Src &s, const ob::PlannerPtr &pl, int per256 = 150, int perParam256 = 160)
    {
        std::string log;
        if (!s.chance(per256))
            return log;
        ErrorCapture cap;
        static const char *skip[] = {"range", "goal_bias", "intermediate_states", "thread_count", "num_threads", "num_planners", "planners", "degree",
                                     "min_degree", "max_degree", "max_pts_per_leaf", "estimated_dimension"};
        std::vector<std::string> names;
        pl->params().getParamNames(names);
        std::sort(names.begin(), names.end());
        for (auto &nm : names)
        {
            bool skipped = false;
            for (auto *k : skip)
                if (nm == k)
                    skipped = true;
            if (skipped)
                continue;
            const std::string sug = pl->params().getParam(nm)->getRangeSuggestion();
            if (sug.empty())
                continue;
            if (!s.chance(perParam256))
                continue;
            std::string val;
            if (sug == "0,1")
                val = pl->params().getParam(nm)->getValue() == "1" ? "0" : "1";
            else
            {
                std::vector<std::string> parts;
                size_t a = 0;
                while (true)
                {
                    size_t b = sug.find(':', a);
                    parts.push_back(sug.substr(a, b == std::string::npos ? b : b - a));
                    if (b == std::string::npos)
                        break;
                    a = b + 1;
                }
                if (parts.size() < 2)
                    continue;
                double lo, hi;
                try
                {
                    lo = std::stod(parts.front());
                    hi = std::stod(parts.back());
                }
                catch (...)
                {
                    continue;
                }
                bool integral = parts.front().find('.') == std::string::npos && parts.back().find('.') == std::string::npos;
                if (integral)
                    hi = std::min(hi, 2000.0);
                if (!(hi >= lo))
                    continue;
                // numeric parameters stay within a factor of two of the default (and inside the suggested range): the purpose is to
                // reach the code paths behind the switches, not to probe the numeric limits of every knob
                double def;
                try
                {
                    def = std::stod(pl->params().getParam(nm)->getValue());
                }
                catch (...)
                {
                    continue;
                }
                if (!(def > 0) || !std::isfinite(def))
                    continue;
                double v = std::min(hi, std::max(lo, def * std::exp(s.real(-std::log(2.0), std::log(2.0)))));
                if (integral)
                    val = std::to_string((long)std::floor(v + 0.5));
                else
                {
                    char buf[40];
                    snprintf(buf, sizeof buf, "%.6g", v);
                    val = buf;
                }
            }
            bool ok = pl->params().setParam(nm, val);
            log += " " + nm + "=" + val + (ok ? "" : "(refused)");
            if (!cap.first.empty())
                throw ompl::Exception("setting " + nm + "=" + val + " was answered with the error message: " + cap.first);
        }
        return log;
    }

    // Switch flipping without choice bytes: every declared "0,1" parameter is flipped with probability 1/2, decided by a hash of the planner
    // seed and the parameter name (for harnesses whose saved cases must keep their meaning: nothing is decoded for it).
    inline std::string flipSwitchesHashed(const ob::PlannerPtr &pl, uint64_t seed)
    {
        std::string log;
        ErrorCapture cap;
        static const char *skip[] = {"intermediate_states", "thread_count", "num_threads", "num_planners", "planners"};
        std::vector<std::string> names;
        pl->params().getParamNames(names);
        std::sort(names.begin(), names.end());
        for (auto &nm : names)
        {
            bool skipped = false;
            for (auto *k : skip)
                if (nm == k)
                    skipped = true;
            if (skipped || pl->params().getParam(nm)->getRangeSuggestion() != "0,1")
                continue;
            uint64_t h = vf::fnv1a(nm.data(), nm.size(), seed * 0x9e3779b97f4a7c15ull + 1);
            if (((h >> 17) & 1) == 0)
                continue;
            std::string val = pl->params().getParam(nm)->getValue() == "1" ? "0" : "1";
            bool ok = pl->params().setParam(nm, val);
            log += " " + nm + "=" + val + (ok ? "" : "(refused)");
            if (!cap.first.empty())
                throw ompl::Exception("setting " + nm + "=" + val + " was answered with the error message: " + cap.first);
        }
        return log;
    }

    // ---------------------------------------------------------------------------------------------------------
    // The path oracle (C01 clauses 2-4). Returns "" when fine; otherwise "key|message".
    struct PathVerdict
    {
        std::string key, msg;
        double worstRun = 0;  // longest invalid run found, in units of r
        bool ok() const
        {
            return key.empty();
        }
    };

    inline double ulpOf(double x)
    {
        x = std::fabs(x);
        return std::nextafter(x, INFINITY) - x;
    }
    // in bounds decided on raw coordinates (<= 4 ulp past a bound), never through the space's distance
    inline bool inBoundsRaw(const PlanSpace &ps, const ob::State *s)
    {
        if (ps.space->satisfiesBounds(s))
            return true;
        std::vector<double> r;
        ps.space->copyToReals(r, s);
        auto okc = [&](double v, double lo, double hi) { return v >= lo - 4 * std::max(ulpOf(lo), ulpOf(v)) && v <= hi + 4 * std::max(ulpOf(hi), ulpOf(v)); };
        switch (ps.kind)
        {
            case SP_RN:
                for (double v : r)
                    if (!okc(v, ps.lo, ps.hi))
                        return false;
                return true;
            case SP_SE3:
            {
                for (int i = 0; i < 3; ++i)
                    if (!okc(r[i], ps.lo, ps.hi))
                        return false;
                double n = std::sqrt(r[3] * r[3] + r[4] * r[4] + r[5] * r[5] + r[6] * r[6]);
                return std::fabs(n - 1) < 2e-9;
            }
            case SP_COMPOUND:
                return okc(r[0], ps.lo, ps.hi) && okc(r[1], ps.lo, ps.hi) && okc(r[2], -PI, PI) && okc(r[3], ps.lo, ps.hi);
            default:
                return okc(r[0], ps.lo, ps.hi) && okc(r[1], ps.lo, ps.hi) && okc(r[2], -PI, PI);
        }
    }

    // harness-owned reference motion check: valid(s2) and every k/n point valid (C05's reference)
    inline bool referenceMotion(const Problem &P, const ob::State *a, const ob::State *b, ob::State *tmp)
    {
        if (!oracleValid(P.ps, P.env, b))
            return false;
        unsigned n = P.ps.space->validSegmentCount(a, b);
        for (unsigned k = 1; k + 1 <= n; ++k)
        {
            P.ps.space->interpolate(a, b, (double)k / (double)n, tmp);
            if (!oracleValid(P.ps, P.env, tmp))
                return false;
        }
        return true;
    }

    inline PathVerdict checkPath(const Problem &P, const og::PathGeometric &path, bool strict, bool bidirectional, bool mustStartAtStart = true)
    {
        PathVerdict v;
        auto &sp = P.ps.space;
        const size_t n = path.getStateCount();
        if (n == 0)
        {
            v.key = "empty-path";
            v.msg = "solution path has no states";
            return v;
        }
        if (mustStartAtStart)
        {
            bool atStart = false;
            for (size_t i = 0; i < P.starts.size(); ++i)
                if (P.startOk[i] && sp->equalStates(path.getState(0), P.starts[i]))
                    atStart = true;
            if (!atStart)
            {
                double x, y;
                P.ps.xy(path.getState(0), x, y);
                v.key = "start";
                v.msg = vf::fmt("path starts at (%.6g,%.6g), which is not one of the valid start states", x, y);
                return v;
            }
        }
        for (size_t i = 0; i < n; ++i)
            if (!inBoundsRaw(P.ps, path.getState(i)))
            {
                double x, y;
                P.ps.xy(path.getState(i), x, y);
                v.key = "bounds";
                v.msg = vf::fmt("path state %zu at (%.17g,%.17g) is outside the space bounds", i, x, y);
                return v;
            }
        // dense validity: invalid runs measured along the path must stay <= 2r
        const double r = sp->getLongestValidSegmentLength();
        ob::State *tmp = P.si->allocState();
        double run = 0;
        size_t runStartSeg = 0;
        for (size_t i = 0; i + 1 < n && v.key.empty(); ++i)
        {
            const ob::State *a = path.getState(i), *b = path.getState(i + 1);
            double len = sp->distance(a, b);
            if (!std::isfinite(len))
            {
                v.key = "nan-length";
                v.msg = vf::fmt("segment %zu has non-finite length", i);
                break;
            }
            unsigned steps = std::max(1u, (unsigned)std::ceil(len / (r / 20)));
            if (steps > 200000)
                steps = 200000;
            for (unsigned k = (i == 0 ? 0 : 1); k <= steps; ++k)
            {
                const ob::State *q;
                if (k == 0)
                    q = a;
                else if (k == steps)
                    q = b;
                else
                {
                    sp->interpolate(a, b, (double)k / steps, tmp);
                    q = tmp;
                }
                if (!oracleValid(P.ps, P.env, q))
                {
                    if (run == 0)
                        runStartSeg = i;
                    run += len / steps;
                    v.worstRun = std::max(v.worstRun, run / r);
                    if (run > 2 * r + 1e-9)
                    {
                        double x, y;
                        P.ps.xy(q, x, y);
                        v.key = "invalid-stretch";
                        v.msg = vf::fmt("path stays in invalid space for more than 2r = %.4g (run started in segment %zu, at (%.5g,%.5g) in segment %zu of %zu)", 2 * r,
                                        runStartSeg, x, y, i, n - 1);
                        break;
                    }
                }
                else
                    run = 0;
            }
        }
        if (v.key.empty() && strict)
        {
            for (size_t i = 0; i + 1 < n; ++i)
            {
                const ob::State *a = path.getState(i), *b = path.getState(i + 1);
                bool ok = oracleValid(P.ps, P.env, a) && referenceMotion(P, a, b, tmp);
                if (!ok && bidirectional)
                    ok = oracleValid(P.ps, P.env, b) && referenceMotion(P, b, a, tmp);
                if (!ok)
                {
                    double x0, y0, x1, y1;
                    P.ps.xy(a, x0, y0);
                    P.ps.xy(b, x1, y1);
                    v.key = "recheck";
                    v.msg = vf::fmt("consecutive path states %zu (%.6g,%.6g) -> %zu (%.6g,%.6g) do not pass the motion validity check again (n=%u)", i, x0, y0, i + 1,
                                    x1, y1, sp->validSegmentCount(a, b));
                    break;
                }
            }
        }
        P.si->freeState(tmp);
        return v;
    }

    inline bool straightLineFree(const Problem &P)
    {
        ob::State *tmp = P.si->allocState();
        bool any = false;
        for (size_t i = 0; i < P.starts.size() && !any; ++i)
            for (size_t j = 0; j < P.goals.size() && !any; ++j)
                if (P.startOk[i] && P.goalOk[j] && referenceMotion(P, P.starts[i], P.goals[j], tmp))
                    any = true;
        P.si->freeState(tmp);
        return any;
    }

    inline const char *statusName(ob::PlannerStatus st)
    {
        static const char *n[] = {"UNKNOWN", "INVALID_START", "INVALID_GOAL", "UNRECOGNIZED_GOAL_TYPE", "TIMEOUT", "APPROXIMATE", "EXACT", "CRASH", "ABORT", "INFEASIBLE"};
        return n[(int)(ob::PlannerStatus::StatusType)st];
    }

    // digest of a path's raw state bytes (C20)
    inline uint64_t pathDigest(const ob::StateSpacePtr &sp, const og::PathGeometric &p, uint64_t h = 1469598103934665603ull)
    {
        std::string buf(sp->getSerializationLength(), '\0');
        for (size_t i = 0; i < p.getStateCount(); ++i)
        {
            sp->serialize(&buf[0], p.getState(i));
            h = vf::fnv1a(buf.data(), buf.size(), h);
        }
        return h;
    }
}  // namespace plan
