// C13 — grid discretizations track cells, neighbours, borders and components exactly.
// Generator: histories of createCell+add / remove+destroy / update / clear over Grid, GridN, GridB;
// oracle: map coordinate -> cell model, checked after every operation.
#include "../core/verif.h"
#include "ompl/datastructures/Grid.h"
#include "ompl/datastructures/GridN.h"
#include "ompl/datastructures/GridB.h"
#include <algorithm>
#include <functional>

namespace
{
    using CoordV = std::vector<int>;
    enum Kind
    {
        GRID,
        GRIDN,
        GRIDB_SAME,
        GRIDB_TWO
    };

    template <class G>
    struct Traits;
    template <>
    struct Traits<ompl::Grid<int>>
    {
        static constexpr Kind kind = GRID;
    };
    template <>
    struct Traits<ompl::GridN<int>>
    {
        static constexpr Kind kind = GRIDN;
    };
    template <>
    struct Traits<ompl::GridB<int>>
    {
        static constexpr Kind kind = GRIDB_SAME;
    };
    template <>
    struct Traits<ompl::GridB<int, std::less<int>, std::greater<int>>>
    {
        static constexpr Kind kind = GRIDB_TWO;
    };

    std::string cstr(const CoordV &v)
    {
        std::string s = "(";
        for (size_t i = 0; i < v.size(); ++i)
            s += (i ? "," : "") + std::to_string(v[i]);
        return s + ")";
    }

    template <class G>
    void runGrid(vf::Src &s, vf::Ctx &c, unsigned dim)
    {
        constexpr Kind kind = Traits<G>::kind;
        constexpr bool isN = kind != GRID;
        constexpr bool isB = kind == GRIDB_SAME || kind == GRIDB_TWO;
        using Cell = typename G::Cell;
        using Coord = typename G::Coord;
        G grid(dim);
        bool hasBounds = false;
        CoordV low(dim, 0), up(dim, 0);
        unsigned limit = 2 * dim;
        if constexpr (isN)
        {
            if (s.flag())
            {
                hasBounds = true;
                Coord l(dim), u(dim);
                for (unsigned i = 0; i < dim; ++i)
                {
                    low[i] = s.in(-2, 0);
                    up[i] = low[i] + s.in(1, 4);  // low < up strictly: "touches a bound" is unambiguous
                    l[i] = low[i];
                    u[i] = up[i];
                }
                grid.setBounds(l, u);
            }
            if (s.flag())
            {
                limit = (unsigned)s.in(1, 2 * dim);
                grid.setInteriorCellNeighborLimit(limit);
            }
        }
        c.note("%s dim=%u bounds=%d limit=%u\n", kind == GRID ? "Grid" : kind == GRIDN ? "GridN" : kind == GRIDB_SAME ? "GridB" : "GridB<less,greater>", dim,
               (int)hasBounds, limit);

        std::map<CoordV, Cell *> model;
        auto toCoord = [&](const CoordV &v)
        {
            Coord x(dim);
            for (unsigned i = 0; i < dim; ++i)
                x[i] = v[i];
            return x;
        };
        auto genCoord = [&]()
        {
            CoordV v(dim);
            size_t mode = s.weighted({12, 2, 1});
            for (unsigned i = 0; i < dim; ++i)
            {
                if (mode == 0)
                    v[i] = s.in(-2, 3);
                else if (mode == 1)
                    v[i] = hasBounds ? (s.flag() ? low[i] : up[i]) + s.in(-1, 1) : s.in(-40, 40);
                else
                    v[i] = (s.flag() ? 1 : -1) * (1 << 30) + s.in(-1, 1);
            }
            return v;
        };
        auto modelNeighbors = [&](const CoordV &v)
        {
            std::vector<Cell *> r;
            for (unsigned i = 0; i < dim; ++i)
                for (int d : {-1, 1})
                {
                    CoordV w = v;
                    w[i] += d;
                    auto it = model.find(w);
                    if (it != model.end())
                        r.push_back(it->second);
                }
            return r;
        };
        auto boundaryDims = [&](const CoordV &v)
        {
            unsigned r = 0;
            if (hasBounds)
                for (unsigned i = 0; i < dim; ++i)
                    if (v[i] == low[i] || v[i] == up[i])
                        ++r;
            return r;
        };
        bool flipSeen = false;

        auto verify = [&](const char *after, bool deep)
        {
            VCHECK(c, grid.size() == model.size(), "C13/size", "after %s: size()=%u model=%zu", after, grid.size(), model.size());
            VCHECK(c, grid.empty() == model.empty(), "C13/empty", "after %s: empty() wrong", after);
            // lookups: every present cell, plus its absent neighbours
            size_t budget = deep ? model.size() : std::min<size_t>(model.size(), 6);
            size_t k = 0;
            for (auto &kv : model)
            {
                if (k++ >= budget)
                    break;
                Coord x = toCoord(kv.first);
                VCHECK(c, grid.has(x) && grid.getCell(x) == kv.second, "C13/lookup", "after %s: cell %s not found / wrong cell", after,
                       cstr(kv.first).c_str());
                for (unsigned i = 0; i < dim; ++i)
                {
                    CoordV w = kv.first;
                    w[i] += 1;
                    bool present = model.count(w);
                    VCHECK(c, grid.has(toCoord(w)) == present, "C13/lookup-absent", "after %s: has(%s)=%d, model %d", after,
                           cstr(w).c_str(), (int)!present, (int)present);
                }
                std::vector<Cell *> exp = modelNeighbors(kv.first);
                typename G::CellArray got;
                grid.neighbors(kv.second, got);
                std::vector<Cell *> g2(got.begin(), got.end());
                std::sort(g2.begin(), g2.end());
                std::sort(exp.begin(), exp.end());
                VCHECK(c, g2 == exp, "C13/neighbors", "after %s: neighbors(%s) returns %zu cells, model %zu", after, cstr(kv.first).c_str(),
                       g2.size(), exp.size());
                for (Cell *nb : got)  // symmetry
                {
                    typename G::CellArray back;
                    grid.neighbors(nb, back);
                    VCHECK(c, std::find(back.begin(), back.end(), kv.second) != back.end(), "C13/neighbors-symmetry",
                           "after %s: neighbour relation not symmetric at %s", after, cstr(kv.first).c_str());
                }
                if constexpr (isN)
                {
                    unsigned expN = (unsigned)exp.size() + boundaryDims(kv.first);
                    VCHECK(c, kv.second->neighbors == expN, "C13/neighbor-count",
                           "after %s: cell %s has neighbors=%u, actual neighbours %zu + boundary dims %u", after, cstr(kv.first).c_str(),
                           kv.second->neighbors, exp.size(), boundaryDims(kv.first));
                    VCHECK(c, kv.second->border == (expN < limit), "C13/border", "after %s: cell %s border=%d with %u neighbours, limit %u",
                           after, cstr(kv.first).c_str(), (int)kv.second->border, expN, limit);
                }
            }
            if constexpr (isB)
            {
                size_t nb = 0;
                for (auto &kv : model)
                    nb += kv.second->border;
                VCHECK(c, grid.countExternal() == nb && grid.countInternal() == model.size() - nb, "C13/queue-counts",
                       "after %s: countExternal=%u countInternal=%u, model %zu border / %zu interior", after, grid.countExternal(),
                       grid.countInternal(), nb, model.size() - nb);
                if (grid.countExternal() > 0)
                {
                    Cell *t = grid.topExternal();
                    VCHECK(c, t && t->border && model.count(CoordV(t->coord.data(), t->coord.data() + dim)), "C13/top-external-class",
                           "after %s: topExternal() is not a present border cell", after);
                    for (auto &kv : model)
                        if (kv.second->border)
                            VCHECK(c, !(kv.second->data < t->data), "C13/top-external", "after %s: border cell %s data %d orders before topExternal data %d",
                                   after, cstr(kv.first).c_str(), kv.second->data, t->data);
                }
                if (grid.countInternal() > 0)
                {
                    Cell *t = grid.topInternal();
                    VCHECK(c, t && !t->border && model.count(CoordV(t->coord.data(), t->coord.data() + dim)), "C13/top-internal-class",
                           "after %s: topInternal() is not a present interior cell", after);
                    for (auto &kv : model)
                        if (!kv.second->border)
                        {
                            bool before = kind == GRIDB_TWO ? kv.second->data > t->data : kv.second->data < t->data;
                            VCHECK(c, !before, "C13/top-internal", "after %s: interior cell %s data %d orders before topInternal data %d", after,
                                   cstr(kv.first).c_str(), kv.second->data, t->data);
                        }
                }
            }
            if (deep)
            {
                // components: partition equal to the model's flood fill, sorted by decreasing size
                auto comps = grid.components();
                std::map<Cell *, int> compOf;
                size_t total = 0;
                for (size_t i = 0; i < comps.size(); ++i)
                {
                    if (i)
                        VCHECK(c, comps[i - 1].size() >= comps[i].size(), "C13/components-order", "after %s: components not sorted by size", after);
                    VCHECK(c, !comps[i].empty(), "C13/components-empty", "after %s: empty component reported", after);
                    for (auto *cell : comps[i])
                    {
                        VCHECK(c, compOf.insert({static_cast<Cell *>(cell), (int)i}).second, "C13/components-dup",
                               "after %s: a cell appears in two components", after);
                        ++total;
                    }
                }
                VCHECK(c, total == model.size(), "C13/components-cover", "after %s: components cover %zu of %zu cells", after, total,
                       model.size());
                std::map<Cell *, int> ref;
                int nref = 0;
                for (auto &kv : model)
                {
                    if (ref.count(kv.second))
                        continue;
                    std::vector<CoordV> st{kv.first};
                    ref[kv.second] = nref;
                    while (!st.empty())
                    {
                        CoordV v = st.back();
                        st.pop_back();
                        for (Cell *nb : modelNeighbors(v))
                            if (ref.insert({nb, nref}).second)
                                st.push_back(CoordV(nb->coord.data(), nb->coord.data() + dim));
                    }
                    ++nref;
                }
                VCHECK(c, (int)comps.size() == nref, "C13/components-count", "after %s: %zu components reported, flood fill finds %d", after,
                       comps.size(), nref);
                std::map<int, int> m1;
                for (auto &kv : model)
                {
                    VCHECK(c, compOf.count(kv.second), "C13/components-cover", "after %s: cell %s in no component", after, cstr(kv.first).c_str());
                    int a = compOf[kv.second], b = ref[kv.second];
                    auto ins = m1.insert({a, b});
                    VCHECK(c, ins.first->second == b, "C13/components-partition", "after %s: component %d mixes two flood-fill components", after, a);
                }
            }
        };

        int nops = s.in(1, 60);
        for (int op = 0; op < nops && !s.exhausted(); ++op)
        {
            size_t what = s.weighted({10, 5, isB ? 3 : 0, isB ? 2 : 0, 1, 2, 2});
            bool deep = s.chance(64) || model.size() <= 12;
            switch (what)
            {
                case 0:
                {
                    CoordV v = genCoord();
                    if (model.count(v))
                        break;  // callers never add a coordinate twice
                    int data = s.in(0, 15);
                    c.note("add%s=%d ", cstr(v).c_str(), data);
                    Coord x = toCoord(v);
                    Cell *cell;
                    if (s.flag())
                    {
                        typename G::CellArray nbh;
                        if constexpr (kind == GRIDN)
                        {
                            typename ompl::Grid<int>::CellArray bn;
                            cell = static_cast<Cell *>(grid.createCell(x, &bn));
                            for (auto *b : bn)
                                nbh.push_back(static_cast<Cell *>(b));
                        }
                        else
                            cell = static_cast<Cell *>(grid.createCell(x, &nbh));
                        std::vector<Cell *> exp = modelNeighbors(v), got(nbh.begin(), nbh.end());
                        std::sort(exp.begin(), exp.end());
                        std::sort(got.begin(), got.end());
                        VCHECK(c, exp == got, "C13/create-nbh", "createCell%s reported %zu future neighbours, model %zu", cstr(v).c_str(), got.size(),
                               exp.size());
                    }
                    else
                        cell = static_cast<Cell *>(grid.createCell(x));
                    cell->data = data;
                    if constexpr (isN)
                    {
                        for (Cell *nb : modelNeighbors(v))
                            (void)nb;
                    }
                    grid.add(cell);
                    model[v] = cell;
                    verify("add", deep);
                    break;
                }
                case 1:
                {
                    if (model.empty())
                        break;
                    auto it = model.begin();
                    std::advance(it, s.pick(model.size()));
                    c.note("remove%s ", cstr(it->first).c_str());
                    Cell *cell = it->second;
                    if constexpr (isN)
                    {
                        for (Cell *nb : modelNeighbors(it->first))
                            if (!nb->border && nb->neighbors - 1 < limit)
                                flipSeen = true;
                    }
                    bool r = grid.remove(cell);
                    VCHECK(c, r, "C13/remove-return", "remove(present cell %s) returned false", cstr(it->first).c_str());
                    grid.destroyCell(cell);
                    model.erase(it);
                    verify("remove", deep);
                    break;
                }
                case 2:
                {
                    if constexpr (isB)
                    {
                        if (model.empty())
                            break;
                        auto it = model.begin();
                        std::advance(it, s.pick(model.size()));
                        it->second->data = s.in(0, 15);
                        c.note("update%s:=%d ", cstr(it->first).c_str(), it->second->data);
                        grid.update(it->second);
                        verify("update", deep);
                    }
                    break;
                }
                case 3:
                {
                    if constexpr (isB)
                    {
                        int k = s.in(0, 7);
                        if (k >= 6)
                        {
                            // bulk change: every cell gets a new key before the queues are rebuilt
                            for (auto &kv : model)
                                kv.second->data = s.in(0, 15);
                            k = (int)model.size();
                        }
                        else
                            for (int i = 0; i < k && !model.empty(); ++i)
                            {
                                auto it = model.begin();
                                std::advance(it, s.pick(model.size()));
                                it->second->data = s.in(0, 15);
                            }
                        c.note("updateAll(%d changed) ", k);
                        grid.updateAll();
                        verify("updateAll", deep);
                    }
                    break;
                }
                case 4:
                    c.note("clear ");
                    grid.clear();
                    model.clear();
                    verify("clear", true);
                    break;
                case 6:
                {
                    // a block of cells at once (queues of GridB get several levels deep)
                    CoordV o = genCoord();
                    int w = s.in(1, 6), h = dim > 1 ? s.in(1, 6) : 1;
                    c.note("addBlock%s %dx%d ", cstr(o).c_str(), w, h);
                    for (int a = 0; a < w; ++a)
                        for (int b = 0; b < h; ++b)
                        {
                            CoordV v = o;
                            v[0] += a;
                            if (dim > 1)
                                v[1] += b;
                            if (model.count(v))
                                continue;
                            Cell *cell = static_cast<Cell *>(grid.createCell(toCoord(v)));
                            cell->data = s.in(0, 15);
                            grid.add(cell);
                            model[v] = cell;
                        }
                    verify("addBlock", deep);
                    break;
                }
                case 5:
                {
                    // documented for GridN::remove (and inherited by GridB, which overrides it): a created but never added cell only gets
                    // the neighbour counts undone - the way to abandon a tentative cell
                    {
                        CoordV v = genCoord();
                        if (model.count(v))
                            break;
                        c.note("create+remove-unadded%s ", cstr(v).c_str());
                        auto *cell = grid.createCell(toCoord(v));
                        bool r = grid.remove(cell);
                        VCHECK(c, !r, "C13/remove-unadded-return", "remove() of a never-added cell returned true");
                        grid.destroyCell(cell);
                        verify("remove-unadded", deep);
                    }
                    break;
                }
            }
        }
        verify("end", true);
        c.count(flipSeen ? "interior->border flip on removal" : "no flip");
        c.nontrivial = isN ? flipSeen : model.size() >= 3;
    }
}  // namespace

vf::Config vf::config()
{
    Config c;
    c.property = "C13";
    c.maxLen = 600;
    c.batch = 2000;
    return c;
}

void vf::run_case(Src &s, Ctx &c)
{
    unsigned dim = (unsigned)s.weighted({0, 2, 6, 3, 1, 1});  // 1..5
    if (dim == 0)
        dim = 1;
    switch (s.weighted({3, 5, 5, 3}))
    {
        case 0:
            c.count("Grid");
            runGrid<ompl::Grid<int>>(s, c, dim);
            break;
        case 1:
            c.count("GridN");
            runGrid<ompl::GridN<int>>(s, c, dim);
            break;
        case 2:
            c.count("GridB");
            runGrid<ompl::GridB<int>>(s, c, dim);
            break;
        default:
            c.count("GridB<less,greater>");
            runGrid<ompl::GridB<int, std::less<int>, std::greater<int>>>(s, c, dim);
            break;
    }
}

#include "../core/runner.h"
