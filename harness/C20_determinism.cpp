// C20 — a fixed seed reproduces single-threaded planning bit for bit.
// Each case is executed three times in separate child processes that differ only in a heap perturbation made before the
// first OMPL call (under ASan heap addresses are otherwise identical in every process); the digests must be identical.
#include "../gen/planning.h"
#include "ompl/base/PlannerData.h"
#include <sys/wait.h>
#include <unistd.h>

namespace ob = ompl::base;
namespace og = ompl::geometric;
using namespace plan;

#define VF_HAS_PROCESS_INIT
void vf::process_init()
{
    ompl::msg::setLogLevel(ompl::msg::LOG_NONE);
}

vf::Config vf::config()
{
    Config c;
    c.property = "C20";
    c.maxLen = 300;
    c.batch = 1;
    c.caseTimeout = 40;
    c.hardTimeout = 200;
    return c;
}

namespace
{
    struct RunResult
    {
        uint64_t digest = 0;
        int status = -1;
        int solutions = 0;
        int states = 0;
        int vertices = 0;
        double length = 0;
        char planner[64] = {0};
        char what[160] = {0};
        int kind = 0;  // 0 planner run, 1 rng streams
    };

    // everything that touches OMPL happens here, in a child
    RunResult execute(const uint8_t *data, size_t size, int perturb)
    {
        RunResult r;
        // heap perturbation before the first OMPL call: a run-indexed number of small blocks of assorted sizes stays allocated
        std::vector<void *> keep;
        static const int counts[] = {0, 7, 100};
        for (int i = 0; i < counts[perturb % 3]; ++i)
            keep.push_back(malloc(8 + (i * 37) % 200));
        vf::Src s(data, size);
        vf::Ctx c;
        size_t mode = s.weighted({8, 2});
        r.kind = (int)mode;
        // "for every seed": mostly ordinary values, sometimes the boundaries of the seed type (0 is documented to be replaced by 1;
        // std::uint_fast32_t is 64 bits wide here)
        std::uint_fast32_t seed;
        switch (s.weighted({12, 1, 1, 1, 1}))
        {
            case 0:
                seed = 1 + (std::uint_fast32_t)s.u(0, 1000000);
                break;
            case 1:
                seed = 0;
                break;
            case 2:
                seed = 0xFFFFFFFFull;
                break;
            case 3:
                seed = 0x100000000ull + (std::uint_fast32_t)s.u(0, 1000);
                break;
            default:
                seed = ((std::uint_fast32_t)s.be(4) << 32) | (std::uint_fast32_t)s.be(4);
        }
        ompl::RNG::setSeed(seed);
        if (mode == 1)
        {
            // RNG level: the i-th generator created after setSeed yields the same draws in every process; a generator that is given a
            // local seed after arbitrary use reproduces the stream of a fresh generator with that seed
            uint64_t h = 1469598103934665603ull;
            int n = s.in(1, 6);
            for (int i = 0; i < n; ++i)
            {
                ompl::RNG g;
                for (int k = 0; k < 16; ++k)
                {
                    double v[4] = {g.uniform01(), g.gaussian01(), (double)g.uniformInt(0, 1000), g.uniformReal(-3, 7)};
                    h = vf::fnv1a(v, sizeof v, h);
                }
                double q[4];
                g.quaternion(q);
                h = vf::fnv1a(q, sizeof q, h);
                std::uint_fast32_t ls = g.getLocalSeed();
                h = vf::fnv1a(&ls, sizeof ls, h);
            }
            // reseeding law
            ompl::RNG used;
            int pre = s.in(0, 7);
            for (int k = 0; k < pre; ++k)
            {
                used.gaussian01();  // leaves a half-consumed normal cache
                if (k % 2)
                    used.uniform01();
            }
            std::uint_fast32_t x = 1 + (std::uint_fast32_t)s.u(0, 100000);
            used.setLocalSeed(x);
            ompl::RNG fresh(x);
            bool same = true;
            for (int k = 0; k < 32; ++k)
            {
                same &= used.uniform01() == fresh.uniform01();
                same &= used.gaussian01() == fresh.gaussian01();
                same &= used.uniformInt(0, 99) == fresh.uniformInt(0, 99);
            }
            double qa[4], qb[4];
            used.quaternion(qa);
            fresh.quaternion(qb);
            same &= memcmp(qa, qb, sizeof qa) == 0;
            r.status = same ? 1 : 0;
            snprintf(r.what, sizeof r.what, "rng streams: %d generators, reseed after %d draws", n, pre);
            r.digest = h;
            for (void *p : keep)
                free(p);
            return r;
        }
        const auto &R = registry();
        std::vector<int> single;
        for (size_t i = 0; i < R.size(); ++i)
            if (!R[i].threaded)
                single.push_back((int)i);
        const PlannerInfo &pi = R[single[s.pick(single.size())]];
        snprintf(r.planner, sizeof r.planner, "%s", pi.name);
        ProblemOpts o;
        o.allowCurves = pi.directedOk;
        o.allowAbnormal = false;
        o.onlySampleableGoal = true;
        o.singleStart = std::string(pi.name) == "LBTRRT" || std::string(pi.name) == "LazyLBTRRT";
        std::shared_ptr<Problem> P;
        try
        {
            P = genProblem(s, o);
        }
        catch (const ompl::Exception &)
        {
            r.status = -2;
            return r;
        }
        long budget = (long)(std::exp(s.real(std::log(20.0), std::log(3000.0))) * pi.budgetScale);
        ob::PlannerPtr pl = pi.make(P->si);
        CountPTC ptc;
        ptc.limit = budget;
        uint64_t h = 1469598103934665603ull;
        try
        {
            pl->setProblemDefinition(P->pdef);
            pl->setup();
            ob::PlannerStatus st = pl->solve(ptc.make());
            r.status = (int)(ob::PlannerStatus::StatusType)st;
        }
        catch (const ompl::Exception &)
        {
            r.status = -3;
        }
        h = vf::fnv1a(&r.status, sizeof r.status, h);
        auto sols = P->pdef->getSolutions();
        r.solutions = (int)sols.size();
        for (auto &sol : sols)
        {
            auto *pg = dynamic_cast<og::PathGeometric *>(sol.path_.get());
            if (!pg)
                continue;
            h = pathDigest(P->ps.space, *pg, h);
            r.states = std::max(r.states, (int)pg->getStateCount());
            r.length = pg->length();
        }
        {
            ob::PlannerData pd(P->si);
            try
            {
                pl->getPlannerData(pd);
                r.vertices = (int)pd.numVertices();
            }
            catch (...)
            {
                r.vertices = -1;
            }
            h = vf::fnv1a(&r.vertices, sizeof r.vertices, h);
        }
        long calls = ptc.calls->load();
        h = vf::fnv1a(&calls, sizeof calls, h);
        r.digest = h;
        snprintf(r.what, sizeof r.what, "%s on %s, seed %llu, budget %ld, %zu obstacles", pi.name, P->ps.name().c_str(), (unsigned long long)seed, budget, P->env.obs.size());
        for (void *p : keep)
            free(p);
        return r;
    }
}  // namespace

void vf::run_case(Src &s, Ctx &c)
{
    // the supervising process never touches OMPL: it only hands the same bytes to three children
    RunResult res[3];
    for (int run = 0; run < 3; ++run)
    {
        int fd[2];
        if (pipe(fd) != 0)
            throw Skip{"pipe failed"};
        fflush(nullptr);
        pid_t pid = fork();
        if (pid == 0)
        {
            close(fd[0]);
            RunResult r = execute(s.d, s.n, run);
            ssize_t w = write(fd[1], &r, sizeof r);
            (void)w;
            _exit(0);
        }
        close(fd[1]);
        RunResult r;
        ssize_t got = read(fd[0], &r, sizeof r);
        close(fd[0]);
        int wst = 0;
        waitpid(pid, &wst, 0);
        if (got != (ssize_t)sizeof r || !WIFEXITED(wst) || WEXITSTATUS(wst) != 0)
        {
            // a crash of the planner itself is C01/C03 territory; here it only means "no digest"
            c.count("run-died(not judged here)");
            throw Skip{"a run died"};
        }
        res[run] = r;
        if (c.progress)
            *c.progress = *c.progress + 1;  // liveness for the watchdog
    }
    s.i = s.n;  // all bytes belong to the case
    c.context(res[0].planner);
    c.note("%s\n run digests: %016llx %016llx %016llx; status %d, %d solutions, longest path %d states, %d vertices\n", res[0].what, (unsigned long long)res[0].digest,
           (unsigned long long)res[1].digest, (unsigned long long)res[2].digest, res[0].status, res[0].solutions, res[0].states, res[0].vertices);
    if (res[0].kind == 1)
    {
        c.count("rng-streams");
        VCHECK(c, res[0].status == 1 && res[1].status == 1 && res[2].status == 1, "C20/setLocalSeed-stream", "a generator reseeded with setLocalSeed(x) after use does not reproduce RNG(x)");
        VCHECK(c, res[0].digest == res[1].digest && res[1].digest == res[2].digest, "C20/rng-streams-differ", "the i-th generators created after setSeed() produced different streams in different processes");
        c.nontrivial = true;
        return;
    }
    if (res[0].status == -2)
        throw Skip{"problem rejected"};
    c.count(std::string("planner:") + res[0].planner);
    const std::string pkey = std::string("/") + res[0].planner;
    for (int run = 1; run < 3; ++run)
        if (res[run].digest != res[0].digest)
            c.failOrKnown("C20/runs-differ" + pkey,
                          vf::fmt("%s: run 0 -> status %d, %d solutions, %d states, length %.9g, %d vertices; run %d (heap perturbed) -> status %d, %d solutions, %d states, length %.9g, %d vertices",
                                  res[0].what, res[0].status, res[0].solutions, res[0].states, res[0].length, res[0].vertices, run, res[run].status, res[run].solutions,
                                  res[run].states, res[run].length, res[run].vertices));
    c.count(res[0].states >= 3 ? "solution>=3states" : "no-or-short-solution");
    c.nontrivial = res[0].states >= 3;
}

#include "../core/runner.h"
