// C12 — weighted sampling follows the current weights after any edits.
// Generator: histories of add / update / remove / clear / sample on ompl::PDF<int>; oracle: exact prefix-sum model
// kept in the structure's documented element order (swap-with-last on removal).
#include <cmath>
#include "../core/verif.h"
#include "ompl/datastructures/PDF.h"
#include "ompl/util/Exception.h"
#include <algorithm>

namespace
{
    using P = ompl::PDF<int>;
    struct M
    {
        std::vector<P::Element *> h;  // element order
        std::vector<double> w;
        std::vector<int> id;
    };
}

vf::Config vf::config()
{
    Config c;
    c.property = "C12";
    c.maxLen = 400;
    c.batch = 4000;
    return c;
}

void vf::run_case(Src &s, Ctx &c)
{
    bool extreme = s.chance(48);  // huge weight ratios allowed in this case
    // The structure is scale-free: a power-of-two factor on every weight changes no rounding, so the same oracle applies at any
    // magnitude. Most cases use 1; some put all weights far below / above 1 (absolute thresholds in the implementation would show).
    static const int scaleExp[] = {0, -60, -500, 60, 400};
    const int se = scaleExp[s.weighted({12, 1, 1, 1, 1})];
    const double scale = std::ldexp(1.0, se);
    auto genW1 = [&]() -> double
    {
        static const double small[] = {0, 1, 2, 3, 5, 0.1, 0.2, 0.3, 0.7, 1e-3};
        size_t k = s.weighted({10, 3, extreme ? 3 : 0});
        if (k == 0)
            return small[s.pick(10)];
        if (k == 1)
            return s.real(0, 10);
        return s.flag() ? 1e12 : 1e-12;
    };
    auto genW = [&]() -> double { return scale * genW1(); };
    P *pdf;
    M m;
    int nextId = 0;
    long double maxTotal = 0;  // largest total weight held since the structure was last empty (drift scale)
    int n0 = s.chance(64) ? s.in(0, 9) : 0;
    if (n0)
    {
        std::vector<int> d;
        std::vector<double> w;
        for (int i = 0; i < n0; ++i)
        {
            d.push_back(nextId++);
            w.push_back(genW());
        }
        pdf = new P(d, w);
        m.h = pdf->getElements();
        m.w = w;
        m.id = d;
        c.note("PDF(vector of %d) ", n0);
    }
    else
    {
        pdf = new P();
        c.note("PDF() ");
    }
    struct Guard
    {
        P *p;
        ~Guard()
        {
            delete p;
        }
    } guard{pdf};

    auto total = [&]()
    {
        long double t = 0;
        for (double x : m.w)
            t += x;
        return t;
    };
    auto verify = [&](const char *after)
    {
        VCHECK(c, pdf->size() == m.w.size(), "C12/size", "after %s: size()=%zu model=%zu", after, pdf->size(), m.w.size());
        VCHECK(c, pdf->empty() == m.w.empty(), "C12/empty", "after %s: empty() wrong", after);
        const auto &el = pdf->getElements();
        VCHECK(c, el.size() == m.h.size(), "C12/elements", "after %s: getElements() has %zu entries, model %zu", after, el.size(),
               m.h.size());
        for (size_t i = 0; i < el.size(); ++i)
        {
            VCHECK(c, el[i] == m.h[i], "C12/order", "after %s: element order differs from swap-with-last model at %zu", after, i);
            VCHECK(c, el[i]->data_ == m.id[i], "C12/handle", "after %s: handle %zu holds data %d, expected %d", after, i, el[i]->data_,
                   m.id[i]);
            VCHECK(c, (*pdf)[i] == m.id[i], "C12/index", "after %s: operator[](%zu) wrong", after, i);
            double gw = pdf->getWeight(el[i]);
            VCHECK(c, gw == m.w[i], "C12/weight", "after %s: getWeight(elem %zu)=%.17g, model %.17g", after, i, gw, m.w[i]);
        }
        long double t = total();
        if (m.w.empty())
            maxTotal = 0;
        else if (t > maxTotal)
            maxTotal = t;
    };
    verify("construction");

    bool nt = false, removedNonLast = false;
    int nops = s.in(1, 50);
    for (int op = 0; op < nops && !s.exhausted(); ++op)
    {
        switch (s.weighted({6, 3, 4, 1, 8}))
        {
            case 0:
            {
                double w = genW();
                P::Element *e = pdf->add(nextId, w);
                m.h.push_back(e);
                m.w.push_back(w);
                m.id.push_back(nextId++);
                c.note("add(%.17g) ", w);
                verify("add");
                break;
            }
            case 1:
            {
                if (m.w.empty())
                    break;
                size_t i = s.pick(m.w.size());
                double w = genW();
                pdf->update(m.h[i], w);
                m.w[i] = w;
                c.note("update(@%zu,%.17g) ", i, w);
                verify("update");
                break;
            }
            case 2:
            {
                if (m.w.empty())
                    break;
                size_t i = s.pick(m.w.size());
                if (i + 1 != m.w.size() && m.w.size() >= 3)
                    removedNonLast = true;
                pdf->remove(m.h[i]);
                // documented order rule: the last element takes the removed element's place
                m.h[i] = m.h.back();
                m.w[i] = m.w.back();
                m.id[i] = m.id.back();
                m.h.pop_back();
                m.w.pop_back();
                m.id.pop_back();
                c.note("remove(@%zu) ", i);
                verify("remove");
                break;
            }
            case 3:
                pdf->clear();
                m = M();
                removedNonLast = false;
                c.note("clear ");
                verify("clear");
                break;
            case 4:
            {
                if (m.w.empty())
                {
                    bool threw = false;
                    try
                    {
                        pdf->sample(0.5);
                    }
                    catch (const ompl::Exception &)
                    {
                        threw = true;
                    }
                    VCHECK(c, threw, "C12/sample-empty", "sample() on an empty PDF did not throw");
                    break;
                }
                long double T = total();
                if (!(T > 0))
                    break;  // all weights zero: no element has a non-empty interval; nothing is stated
                double r;
                size_t mode = s.weighted({6, 2, 2, 4});
                if (mode == 0)
                    r = s.unit();
                else if (mode == 1)
                    r = 0;
                else if (mode == 2)
                    r = 1;
                else
                {
                    // a cumulative boundary (as close as double arithmetic gets), optionally nudged by one ulp
                    size_t k = s.pick(m.w.size() + 1);
                    long double cum = 0;
                    for (size_t j = 0; j < k; ++j)
                        cum += m.w[j];
                    r = (double)(cum / T);
                    int nud = s.in(0, 2);
                    if (nud == 1)
                        r = std::nextafter(r, 0.0);
                    if (nud == 2)
                        r = std::nextafter(r, 1.0);
                    r = std::min(1.0, std::max(0.0, r));
                }
                int &ret = pdf->sample(r);
                // the returned reference must be one of the stored elements (no read outside the storage)
                size_t j = m.h.size();
                for (size_t q = 0; q < m.h.size(); ++q)
                    if (&m.h[q]->data_ == &ret)
                        j = q;
                VCHECK(c, j < m.h.size(), "C12/sample-outside", "sample(%.17g) returned a reference to no stored element (size %zu)", r,
                       m.h.size());
                long double lo = 0;
                for (size_t q = 0; q < j; ++q)
                    lo += m.w[q];
                long double hi = lo + m.w[j];
                long double x = (long double)r * T;
                long double tol = 1e-9L * maxTotal;
                c.stat("sample-interval-miss/total", (double)(std::max<long double>(0, std::max(lo - x, x - hi)) / maxTotal));
                VCHECK(c, x >= lo - tol && x <= hi + tol, "C12/sample-interval",
                       "sample(%.17g): r*total=%.17Lg but returned element %zu covers [%.17Lg, %.17Lg] (total %.17Lg, n=%zu)", r, x, j, lo,
                       hi, T, m.w.size());
                c.note("sample(%.9g)->@%zu ", r, j);
                if (removedNonLast && m.w.size() >= 3)
                    nt = true;
                break;
            }
        }
    }
    c.count(extreme ? "weights:extreme-ratio" : "weights:bounded-ratio");
    c.count(vf::fmt("weights:scale-2^%d", se));
    c.count(nt ? "sample-after-nonlast-remove" : "other");
    c.nontrivial = nt;
}

#include "../core/runner.h"
