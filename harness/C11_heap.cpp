// C11 — the updatable heap always pops in order, whatever was removed or updated.
// Generator: operation histories over BinaryHeap<Item, Cmp>; oracle: sorted-multiset model.
#include "../core/verif.h"
#include "ompl/datastructures/BinaryHeap.h"
#include <algorithm>

namespace
{
    struct Item
    {
        int key;
        int id;
    };
    struct Cmp
    {
        int mode = 0;
        int k(int x) const
        {
            return mode == 2 ? x % 7 : x;
        }
        bool operator()(const Item &a, const Item &b) const
        {
            return mode == 1 ? a.key > b.key : k(a.key) < k(b.key);
        }
    };
    using Heap = ompl::BinaryHeap<Item, Cmp>;

    struct Model
    {
        std::map<int, int> live;             // id -> key
        std::map<int, Heap::Element *> h;    // id -> handle (only for elements whose handle we know)
    };
    std::vector<Heap::Element *> *g_inserted = nullptr;
    void afterInsert(Heap::Element *e, void *)
    {
        if (g_inserted)
            g_inserted->push_back(e);
    }
}  // namespace

vf::Config vf::config()
{
    Config c;
    c.property = "C11";
    c.maxLen = 400;
    c.batch = 4000;
    return c;
}

void vf::run_case(Src &s, Ctx &c)
{
    Cmp cmp;
    cmp.mode = (int)s.weighted({3, 1, 1});
    Heap heap(cmp);
    std::vector<Heap::Element *> inserted;
    g_inserted = &inserted;
    heap.onAfterInsert(&afterInsert, nullptr);
    Model m;
    int nextId = 0;
    int keyRange = s.flag() ? 8 : 64;
    c.note("BinaryHeap cmp=%s keys<%d\n", cmp.mode == 0 ? "less" : cmp.mode == 1 ? "greater" : "key%7", keyRange);
    bool nt = false;
    int ops = 0;

    auto verify = [&](const char *after)
    {
        VCHECK(c, heap.size() == m.live.size(), "C11/size", "after %s: size()=%u model=%zu", after, heap.size(), m.live.size());
        VCHECK(c, heap.empty() == m.live.empty(), "C11/empty", "after %s: empty() disagrees", after);
        Heap::Element *t = heap.top();
        VCHECK(c, (t == nullptr) == m.live.empty(), "C11/top-null", "after %s: top() null-ness wrong", after);
        if (t)
        {
            auto it = m.live.find(t->data.id);
            VCHECK(c, it != m.live.end(), "C11/top-dead", "after %s: top() id %d is not live", after, t->data.id);
            VCHECK(c, it->second == t->data.key, "C11/top-key", "after %s: top() carries key %d, model %d", after, t->data.key,
                   it->second);
            for (auto &kv : m.live)
                VCHECK(c, !cmp(Item{kv.second, kv.first}, t->data), "C11/top-not-min",
                       "after %s: live element id=%d key=%d orders before top() id=%d key=%d (size %zu)", after, kv.first, kv.second,
                       t->data.id, t->data.key, m.live.size());
        }
        for (auto &kv : m.h)
        {
            VCHECK(c, kv.second->data.id == kv.first, "C11/handle", "after %s: handle of id %d now holds id %d", after, kv.first,
                   kv.second->data.id);
        }
    };
    auto verifyContent = [&](const char *after)
    {
        std::vector<Item> content;
        heap.getContent(content);
        std::map<int, int> got;
        for (auto &it : content)
            got[it.id] = it.key;
        VCHECK(c, content.size() == m.live.size() && got == m.live, "C11/content", "after %s: getContent() != model (%zu vs %zu)", after,
               content.size(), m.live.size());
    };
    auto drain = [&]()
    {
        std::vector<int> keys;
        bool have = false;
        Item prev{};
        while (!heap.empty())
        {
            Heap::Element *t = heap.top();
            Item cur = t->data;
            auto it = m.live.find(cur.id);
            VCHECK(c, it != m.live.end() && it->second == cur.key, "C11/pop-unknown", "drain: popped id=%d key=%d not in model", cur.id,
                   cur.key);
            if (have)
                VCHECK(c, !cmp(cur, prev), "C11/pop-order", "drain: popped key %d after key %d (decreasing under the order)", cur.key,
                       prev.key);
            prev = cur;
            have = true;
            m.live.erase(it);
            m.h.erase(cur.id);
            heap.pop();
        }
        VCHECK(c, m.live.empty(), "C11/pop-lost", "drain: %zu live elements never popped", m.live.size());
    };

    int nops = s.in(1, 60);
    for (; ops < nops && !s.exhausted(); ++ops)
    {
        size_t op = s.weighted({8, 2, 6, 5, 3, 1, 1, 1, 1, 1});
        switch (op)
        {
            case 0:  // insert
            {
                int key = s.in(0, keyRange - 1);
                inserted.clear();
                Heap::Element *e = heap.insert(Item{key, nextId});
                VCHECK(c, inserted.size() == 1 && inserted[0] == e, "C11/event", "insert: after-insert event not delivered once");
                m.live[nextId] = key;
                m.h[nextId] = e;
                c.note("insert(%d)#%d ", key, nextId);
                ++nextId;
                verify("insert");
                break;
            }
            case 1:  // bulk insert
            {
                int n = s.in(0, 6);
                std::vector<Item> list;
                for (int i = 0; i < n; ++i)
                    list.push_back(Item{s.in(0, keyRange - 1), nextId + i});
                inserted.clear();
                heap.insert(list);
                VCHECK(c, (int)inserted.size() == n, "C11/event", "insert(vector): %zu events for %d elements", inserted.size(), n);
                for (auto *e : inserted)
                {
                    m.h[e->data.id] = e;
                }
                for (auto &it : list)
                    m.live[it.id] = it.key;
                nextId += n;
                c.note("insertv(%d) ", n);
                verify("insert(vector)");
                break;
            }
            case 2:  // remove by handle
            {
                if (m.h.empty())
                    break;
                auto it = m.h.begin();
                std::advance(it, s.pick(m.h.size()));
                Heap::Element *e = it->second;
                unsigned pos = 0;  // position in the heap array = index in getContent()
                {
                    std::vector<Item> content;
                    heap.getContent(content);
                    for (; pos < content.size() && content[pos].id != it->first; ++pos)
                        ;
                }
                if (heap.size() >= 4 && pos != 0 && pos != heap.size() - 1)
                    nt = true;
                c.note("remove(#%d@%u) ", it->first, pos);
                int id = it->first;
                heap.remove(e);
                m.live.erase(id);
                m.h.erase(id);
                verify("remove");
                break;
            }
            case 3:  // update after key change
            {
                if (m.h.empty())
                    break;
                auto it = m.h.begin();
                std::advance(it, s.pick(m.h.size()));
                int key = s.in(0, keyRange - 1);
                it->second->data.key = key;
                m.live[it->first] = key;
                heap.update(it->second);
                c.note("update(#%d:=%d) ", it->first, key);
                verify("update");
                break;
            }
            case 4:  // pop
            {
                if (heap.empty())
                    break;
                Heap::Element *t = heap.top();
                int id = t->data.id;
                m.live.erase(id);
                m.h.erase(id);
                heap.pop();
                c.note("pop ");
                verify("pop");
                break;
            }
            case 5:  // change several keys in place, then rebuild
            {
                int k = s.in(0, 5);
                for (int i = 0; i < k && !m.h.empty(); ++i)
                {
                    auto it = m.h.begin();
                    std::advance(it, s.pick(m.h.size()));
                    int key = s.in(0, keyRange - 1);
                    it->second->data.key = key;
                    m.live[it->first] = key;
                }
                heap.rebuild();
                c.note("rebuild(%d changed) ", k);
                verify("rebuild");
                break;
            }
            case 6:  // buildFrom: replaces the content, handles unknown afterwards
            {
                int n = s.in(0, 12);
                std::vector<Item> list;
                for (int i = 0; i < n; ++i)
                    list.push_back(Item{s.in(0, keyRange - 1), nextId + i});
                heap.buildFrom(list);
                m.live.clear();
                m.h.clear();
                for (auto &it : list)
                    m.live[it.id] = it.key;
                nextId += n;
                c.note("buildFrom(%d) ", n);
                verify("buildFrom");
                break;
            }
            case 7:  // sort an external list; heap content must be unaffected
            {
                int n = s.in(0, 12);
                std::vector<Item> list;
                for (int i = 0; i < n; ++i)
                    list.push_back(Item{s.in(0, keyRange - 1), -1 - i});
                std::vector<int> before;
                for (auto &it : list)
                    before.push_back(it.key);
                heap.sort(list);
                std::vector<int> after;
                for (auto &it : list)
                    after.push_back(it.key);
                VCHECK(c, after.size() == before.size(), "C11/sort-size", "sort: %zu -> %zu elements", before.size(), after.size());
                for (size_t i = 1; i < list.size(); ++i)
                    VCHECK(c, !cmp(list[i], list[i - 1]), "C11/sort-order", "sort: element %zu orders before its predecessor", i);
                std::sort(before.begin(), before.end());
                std::sort(after.begin(), after.end());
                VCHECK(c, before == after, "C11/sort-perm", "sort: output is not a permutation of the input");
                c.note("sort(%d) ", n);
                verify("sort");
                verifyContent("sort");
                break;
            }
            case 8:  // clear
                heap.clear();
                m.live.clear();
                m.h.clear();
                c.note("clear ");
                verify("clear");
                break;
            case 9:  // checkpoint: content, then drain in order and re-insert
            {
                verifyContent("checkpoint");
                std::map<int, int> keep = m.live;
                drain();
                for (auto &kv : keep)
                {
                    Heap::Element *e = heap.insert(Item{kv.second, kv.first});
                    m.live[kv.first] = kv.second;
                    m.h[kv.first] = e;
                }
                c.note("drain+reinsert(%zu) ", keep.size());
                verify("reinsert");
                break;
            }
        }
    }
    verifyContent("end");
    c.note("| final drain of %u", heap.size());
    drain();
    g_inserted = nullptr;
    c.count(std::string("cmp:") + (cmp.mode == 0 ? "less" : cmp.mode == 1 ? "greater" : "mod7"));
    c.count(nt ? "interior-remove" : "no-interior-remove");
    c.nontrivial = nt;
}

#include "../core/runner.h"
