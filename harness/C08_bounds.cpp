// C08 — bound enforcement and every sampler keep states inside the space.
#include "../gen/spaces.h"
#include "ompl/base/SpaceInformation.h"
#include "ompl/base/StateValidityChecker.h"
#include "ompl/base/samplers/BridgeTestValidStateSampler.h"
#include "ompl/base/samplers/GaussianValidStateSampler.h"
#include "ompl/base/samplers/MaximizeClearanceValidStateSampler.h"
#include "ompl/base/samplers/MinimumClearanceValidStateSampler.h"
#include "ompl/base/samplers/ObstacleBasedValidStateSampler.h"
#include "ompl/base/samplers/UniformValidStateSampler.h"
#include "ompl/util/Console.h"
#include "ompl/util/RandomNumbers.h"

namespace ob = ompl::base;
using namespace gen;

#define VF_HAS_PROCESS_INIT
void vf::process_init()
{
    ompl::msg::setLogLevel(ompl::msg::LOG_NONE);
}

vf::Config vf::config()
{
    Config c;
    c.property = "C08";
    c.maxLen = 600;
    c.batch = 1000;
    return c;
}

namespace
{
    const char *famName(const Desc &d)
    {
        return d.contains(DUBINS) ? "Dubins" : d.contains(REEDSSHEPP) ? "ReedsShepp" : d.contains(KLEIN) ? "KleinBottle" : d.contains(MOBIUS) ? "Mobius" :
               d.contains(SPHERE) ? "Sphere" : kindName(d.kind);
    }
    // finite but far outside the bounds
    void genFarOut(vf::Src &s, const Desc &d, ob::State *st)
    {
        walk(d, st, 1.0,
             [&](const Desc &l, ob::State *x, double)
             {
                 switch (l.kind)
                 {
                     case RV:
                         for (size_t i = 0; i < l.lo.size(); ++i)
                         {
                             double &v = x->as<ob::RealVectorStateSpace::StateType>()->values[i];
                             double ext = std::max(l.hi[i] - l.lo[i], 1e-3);
                             switch (s.weighted({3, 2, 2, 1, 1}))
                             {
                                 case 0:
                                     v = genCoord(s, l.lo[i], l.hi[i]);
                                     break;
                                 case 1:
                                     v = l.hi[i] + ext * s.logreal(1e-9, 100);
                                     break;
                                 case 2:
                                     v = l.lo[i] - ext * s.logreal(1e-9, 100);
                                     break;
                                 case 3:
                                     v = 1e300;
                                     break;
                                 default:
                                     v = -1e300;
                             }
                         }
                         break;
                     case SO2:
                     {
                         double &v = x->as<ob::SO2StateSpace::StateType>()->value;
                         switch (s.weighted({3, 3, 1, 1, 1}))
                         {
                             case 0:
                                 v = genAngle(s);
                                 break;
                             case 1:
                                 v = genAngle(s) + 2 * PI * s.in(-50, 50);
                                 break;
                             case 2:
                                 v = PI;
                                 break;
                             case 3:
                                 v = std::nextafter(-PI, -4.0);
                                 break;
                             default:
                                 v = (s.flag() ? 1 : -1) * s.logreal(10, 1e9);
                         }
                         break;
                     }
                     case SO3:
                     {
                         auto *q = x->as<ob::SO3StateSpace::StateType>();
                         genQuat(s, q);
                         double k = 1;
                         switch (s.weighted({3, 2, 2, 1}))
                         {
                             case 0:
                                 break;
                             case 1:
                                 k = s.logreal(1e-6, 1);
                                 break;
                             case 2:
                                 k = s.logreal(1, 1e6);
                                 break;
                             default:
                                 k = 0;
                         }
                         q->x *= k;
                         q->y *= k;
                         q->z *= k;
                         q->w *= k;
                         break;
                     }
                     case TIME:
                     {
                         double &v = x->as<ob::TimeStateSpace::StateType>()->position;
                         v = l.bounded ? (s.flag() ? l.thi + s.logreal(1e-9, 1e6) : l.tlo - s.logreal(1e-9, 1e6)) : s.real(-1e6, 1e6);
                         if (s.chance(64) && l.bounded)
                             v = genCoord(s, l.tlo, l.thi);
                         break;
                     }
                     case DISCRETE:
                         x->as<ob::DiscreteStateSpace::StateType>()->value = s.in(l.dlo - 50, l.dhi + 50);
                         break;
                     default:
                         break;
                 }
             });
    }

    // validity predicate: a pure function of the first real value of the state (all valid when the space exposes none)
    struct Pred : ob::StateValidityChecker
    {
        ob::StateSpacePtr sp;
        int mode = 0;
        double lo = 0, hi = 1, w = 0.1, c0 = 0.5;
        mutable std::vector<double> r;
        Pred(const ob::SpaceInformationPtr &si) : ob::StateValidityChecker(si), sp(si->getStateSpace())
        {
        }
        double signedDist(const ob::State *st) const  // > 0 inside the valid set
        {
            if (mode == 0)
                return 1e9;
            sp->copyToReals(r, st);
            if (r.empty())
                return 1e9;
            double x = r[0];
            switch (mode)
            {
                case 1:
                {
                    double u = (x - lo) / w;
                    double f = u - 2 * std::floor(u / 2);  // [0,2): valid on [0,1)
                    return f < 1 ? std::min(f, 1 - f) * w : -std::min(f - 1, 2 - f) * w;
                }
                case 2:
                    return x - c0;
                default:
                    return w - std::fabs(x - c0);
            }
        }
        // What clearance() reports is a separate dimension of "every validity predicate": the samplers may use it to rank or filter
        // states they have found valid, never to decide validity.
        //   0 signed distance to the boundary of the valid set (documented meaning)   1 unsigned distance (penetration depth without sign)
        //   2 validity has an extra constraint clearance knows nothing about            3 not overridden (the base class answers 0)
        int clearMode = 0;
        bool extraOk(const ob::State *st) const
        {
            if (clearMode != 2)
                return true;
            sp->copyToReals(r, st);
            if (r.empty())
                return true;
            double u = std::fabs(r[0] - lo) / std::max(w, 1e-300) * 3.7;
            return u - std::floor(u) < 0.6;
        }
        bool valid(const ob::State *st) const
        {
            return signedDist(st) > 0 && extraOk(st);
        }
        bool isValid(const ob::State *st) const override
        {
            return valid(st);
        }
        double clearance(const ob::State *st) const override
        {
            double d = signedDist(st);
            return clearMode == 1 ? std::fabs(d) : clearMode == 3 ? 0.0 : d;
        }
    };
    bool firstRealRange(const Desc &d, double &lo, double &hi)
    {
        bool found = false;
        std::function<bool(const Desc &)> rec = [&](const Desc &q) -> bool
        {
            switch (q.kind)
            {
                case RV:
                    lo = q.lo[0];
                    hi = q.hi[0];
                    return true;
                case SO2:
                    lo = -PI;
                    hi = PI;
                    return true;
                case SO3:
                    lo = -1;
                    hi = 1;
                    return true;
                case TIME:
                    lo = q.bounded ? q.tlo : -1;
                    hi = q.bounded ? q.thi : 1;
                    return true;
                case DISCRETE:
                    return false;
                default:
                    for (auto &sub : q.subs)  // a discrete leaf exposes no reals: keep searching the following components
                        if (rec(sub))
                            return true;
                    return false;
            }
        };
        found = rec(d);
        return found;
    }
}  // namespace

void vf::run_case(Src &s, Ctx &c)
{
    ompl::RNG::setSeed(1 + s.u(0, 65535));  // the samplers' generators are created below: pinned per case
    SpaceOpts o;
    o.ctx = &c;
    o.allowUnboundedTime = true;
    Desc d = genSpace(s, o);
    setupOrSkip(d, c);
    auto &sp = d.space;
    StateHolder h(sp);
    c.count(std::string("space:") + kindName(d.kind));
    size_t mode = s.weighted({5, 5, 4});
    if (mode == 0)
    {
        // ---- enforceBounds ---------------------------------------------------------------------------------------
        ob::State *st = h.alloc(), *copy = h.alloc();
        bool far = s.chance(176);
        if (far)
            genFarOut(s, d, st);
        else
            genStateInto(s, d, st);
        c.note("%s enforceBounds(%s)", d.name().c_str(), show(d, st).c_str());
        VCHECK(c, allFinite(d, st), "C08/harness", "generator produced a non-finite input");
        bool wasIn = sp->satisfiesBounds(st);
        sp->copyState(copy, st);
        std::string before = serialImage(sp, st);
        sp->enforceBounds(st);
        c.note(" -> %s", show(d, st).c_str());
        VCHECK(c, allFinite(d, st), std::string("C08/enforce-finite/") + famName(d), "%s: enforceBounds produced a non-finite value: %s", d.name().c_str(),
               show(d, st).c_str());
        if (wasIn)
        {
            LeafDiff ld = leafDiff(d, st, copy);
            bool same = d.contains(SO3) ? (ld.rv == 0 && ld.ang == 0 && ld.time == 0 && ld.disc == 0 && ld.quat < 1e-7) : serialImage(sp, st) == before;
            VCHECK(c, same, std::string("C08/enforce-changes-inbounds/") + famName(d), "%s: enforceBounds changed an in-bounds state %s -> %s",
                   d.name().c_str(), show(d, copy).c_str(), show(d, st).c_str());
        }
        VCHECK(c, sp->satisfiesBounds(st), std::string("C08/enforce-not-inside/") + famName(d), "%s: after enforceBounds(%s) the state %s does not satisfy the bounds",
               d.name().c_str(), show(d, copy).c_str(), show(d, st).c_str());
        std::string once = serialImage(sp, st);
        sp->copyState(copy, st);
        sp->enforceBounds(st);
        LeafDiff ld = leafDiff(d, st, copy);
        bool idem = d.contains(SO3) ? (ld.rv == 0 && ld.ang == 0 && ld.time == 0 && ld.disc == 0 && ld.quat < 1e-7) : serialImage(sp, st) == once;
        VCHECK(c, idem, std::string("C08/enforce-idempotent/") + famName(d), "%s: second enforceBounds changed %s -> %s", d.name().c_str(),
               show(d, copy).c_str(), show(d, st).c_str());
        c.count(far ? "enforce:far-out" : "enforce:in-bounds");
        c.nontrivial = far && !wasIn;
        return;
    }
    double ext = sp->getMaximumExtent();
    auto genDist = [&](bool &extreme)
    {
        extreme = true;
        switch (s.weighted({3, 1, 1, 2, 2}))
        {
            case 0:
                extreme = false;
                return ext * s.real(0.01, 0.5);
            case 1:
                return 0.0;
            case 2:
                return s.logreal(1e-12, 1e-6);
            case 3:
                return ext;
            default:
                return 100 * ext * s.real(0.5, 2);
        }
    };
    if (mode == 1)
    {
        // ---- state samplers ---------------------------------------------------------------------------------------
        ob::State *centre = h.alloc(), *out = h.alloc();
        genStateInto(s, d, centre);
        if (!sp->satisfiesBounds(centre))
            throw Skip{"generator produced an out-of-bounds centre"};
        ob::StateSamplerPtr sampler;
        const Desc *top = &d;
        bool sub = false;
        size_t subIdx = 0;
        if (d.kind == COMPOUND && s.chance(80))
        {
            subIdx = s.pick(d.subs.size());
            sampler = sp->allocSubspaceStateSampler(d.subs[subIdx].space);
            sub = true;
        }
        else
            sampler = sp->allocStateSampler();
        (void)top;
        bool anyExtreme = false;
        int n = s.in(1, 6);
        for (int k = 0; k < n; ++k)
        {
            size_t what = s.weighted({3, 4, 4});
            bool extreme = false;
            double dist = 0;
            sp->copyState(out, centre);  // subspace samplers only write their part
            if (what == 0)
                sampler->sampleUniform(out);
            else if (what == 1)
            {
                dist = genDist(extreme);
                sampler->sampleUniformNear(out, centre, dist);
            }
            else
            {
                dist = genDist(extreme);
                sampler->sampleGaussian(out, centre, dist);
            }
            anyExtreme |= extreme;
            const char *wn = what == 0 ? "uniform" : what == 1 ? "near" : "gaussian";
            c.note("%s %s%s(d=%.6g) centre=%s -> %s\n", d.name().c_str(), sub ? "subspace-" : "", wn, dist, show(d, centre).c_str(), show(d, out).c_str());
            VCHECK(c, allFinite(d, out), std::string("C08/sampler-finite/") + wn + "/" + famName(d), "%s: %s sample has a non-finite value: %s (distance %.6g)",
                   d.name().c_str(), wn, show(d, out).c_str(), dist);
            VCHECK(c, sp->satisfiesBounds(out), std::string("C08/sampler-bounds/") + wn + "/" + famName(d),
                   "%s: %s sample (distance/stddev %.6g around %s) violates the bounds: %s (%s)", d.name().c_str(), wn, dist, show(d, centre).c_str(),
                   show(d, out).c_str(), boundsViolation(d, out, 0).c_str());
            if (sub)
            {
                // untouched components stay bit-identical
                auto *co = static_cast<const ob::CompoundState *>(out);
                auto *cc = static_cast<const ob::CompoundState *>(centre);
                for (size_t i = 0; i < d.subs.size(); ++i)
                    if (i != subIdx)
                        VCHECK(c, serialImage(d.subs[i].space, co->components[i]) == serialImage(d.subs[i].space, cc->components[i]),
                               "C08/subspace-sampler-touches-others", "%s: subspace sampler for component %zu modified component %zu", d.name().c_str(), subIdx, i);
            }
            c.count(std::string("sampler:") + wn);
        }
        c.nontrivial = anyExtreme;
        return;
    }
    // ---- valid state samplers ---------------------------------------------------------------------------------------
    auto si = std::make_shared<ob::SpaceInformation>(sp);
    auto pred = std::make_shared<Pred>(si);
    double lo = 0, hi = 1;
    bool haveReal = firstRealRange(d, lo, hi);
    pred->mode = haveReal ? (int)s.weighted({1, 4, 3, 2}) : 0;
    pred->lo = lo;
    pred->hi = hi;
    double range = std::max(hi - lo, 1e-9);
    pred->w = pred->mode == 1 ? range / s.in(2, 8) : range * s.real(0.02, 0.3);
    pred->c0 = lo + range * s.real(0.2, 0.8);
    si->setStateValidityChecker(pred);
    try
    {
        si->setup();
    }
    catch (const ompl::Exception &)
    {
        c.count("si-setup-rejected");
        throw Skip{"SpaceInformation::setup rejected"};
    }
    size_t which = s.weighted({2, 3, 4, 4, 2, 2});
    static const char *names[] = {"uniform", "gaussian", "obstacle", "bridge", "max-clearance", "min-clearance"};
    std::shared_ptr<ob::ValidStateSampler> vs;
    double minClear = 0;
    switch (which)
    {
        case 0:
            vs = std::make_shared<ob::UniformValidStateSampler>(si.get());
            break;
        case 1:
        {
            auto g = std::make_shared<ob::GaussianValidStateSampler>(si.get());
            g->setStdDev(sp->getMaximumExtent() * s.real(0.001, 0.5));
            vs = g;
            break;
        }
        case 2:
            vs = std::make_shared<ob::ObstacleBasedValidStateSampler>(si.get());
            break;
        case 3:
        {
            auto b = std::make_shared<ob::BridgeTestValidStateSampler>(si.get());
            b->setStdDev(sp->getMaximumExtent() * s.real(0.001, 0.5));
            vs = b;
            break;
        }
        case 4:
        {
            auto m = std::make_shared<ob::MaximizeClearanceValidStateSampler>(si.get());
            m->setNrImproveAttempts((unsigned)s.in(0, 8));
            pred->clearMode = (int)s.weighted({3, 2, 2, 1});
            vs = m;
            break;
        }
        default:
        {
            auto m = std::make_shared<ob::MinimumClearanceValidStateSampler>(si.get());
            minClear = pred->w * s.real(0, 0.4);
            m->setMinimumObstacleClearance(minClear);
            pred->clearMode = (int)s.weighted({3, 2, 2, 1});
            vs = m;
        }
    }
    vs->setNrAttempts((unsigned)s.in(1, 40));
    ob::State *out = h.alloc(), *near = h.alloc();
    genStateInto(s, d, near);
    if (!sp->satisfiesBounds(near))
        throw Skip{"generator produced an out-of-bounds centre"};
    int succ = 0;
    int n = s.in(1, 6);
    for (int k = 0; k < n; ++k)
    {
        bool useNear = s.flag();
        bool extreme;
        double dist = useNear ? genDist(extreme) : 0;
        bool ok = useNear ? vs->sampleNear(out, near, dist) : vs->sample(out);
        c.count(std::string("valid-sampler:") + names[which] + (ok ? ":success" : ":gave-up"));
        if (which >= 4)
            c.count(vf::fmt("clearance-mode:%d", pred->clearMode));
        if (!ok)
            continue;  // returning false is always acceptable
        ++succ;
        c.note("%s %s%s pred=%d -> %s\n", d.name().c_str(), names[which], useNear ? "(near)" : "", pred->mode, show(d, out).c_str());
        if (!sp->satisfiesBounds(out))
            c.failOrKnown(std::string("C08/valid-sampler-bounds/") + names[which] + "/" + famName(d),
                          vf::fmt("%s: %s valid-state sampler returned success with an out-of-bounds state %s (%s)", d.name().c_str(), names[which],
                                  show(d, out).c_str(), boundsViolation(d, out, 0).c_str()));
        VCHECK(c, pred->valid(out), std::string("C08/valid-sampler-invalid/") + names[which] + "/" + famName(d),
               "%s: %s valid-state sampler returned success with an invalid state %s (predicate mode %d, clearance mode %d)", d.name().c_str(), names[which],
               show(d, out).c_str(), pred->mode, pred->clearMode);
        if (which == 5)
            VCHECK(c, pred->clearance(out) >= minClear, "C08/min-clearance", "%s: min-clearance sampler returned clearance %.6g < configured %.6g",
                   d.name().c_str(), pred->clearance(out), minClear);
    }
    c.nontrivial = succ > 0 && pred->mode >= 2;
}

#include "../core/runner.h"
