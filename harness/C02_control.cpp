// C02 — control planners' solutions replay through the propagator to the goal.
// Compiled a second time with -DVF_C03C as a companion of C03 (interrupt / resume / clear for the control planners): the first solve is
// cut at a generated evaluation index, then the history continues (solve again / clear + solve), every reported solution goes through
// the same replay oracle, and LeakSanitizer runs at the end of the case.
#ifdef VF_C03C
#define VF_DETECT_LEAKS 1
#define VF_KP "C03/control"
#else
#define VF_KP "C02"
#endif
#include "../gen/planning.h"
#include "ompl/control/PathControl.h"
#include "ompl/control/SimpleSetup.h"
#include "ompl/control/SpaceInformation.h"
#include "ompl/control/planners/est/EST.h"
#include "ompl/control/planners/kpiece/KPIECE1.h"
#include "ompl/control/planners/pdst/PDST.h"
#include "ompl/control/SimpleDirectedControlSampler.h"
#include "ompl/control/planners/rrt/RRT.h"
#include "ompl/control/planners/sst/SST.h"
#include "ompl/control/planners/syclop/GridDecomposition.h"
#include "ompl/control/planners/syclop/SyclopEST.h"
#include "ompl/control/planners/syclop/SyclopRRT.h"
#include "ompl/control/spaces/RealVectorControlSpace.h"

namespace ob = ompl::base;
namespace oc = ompl::control;
using namespace plan;

#define VF_HAS_PROCESS_INIT
void vf::process_init()
{
    ompl::msg::setLogLevel(ompl::msg::LOG_NONE);
}

vf::Config vf::config()
{
    Config c;
#ifdef VF_C03C
    c.property = "C03";
    c.leaks = true;
#else
    c.property = "C02";
#endif
    c.maxLen = 400;
    c.batch = 1;
    c.caseTimeout = 30;
    c.hardTimeout = 150;
    return c;
}

namespace
{
    enum Sys
    {
        POINT1,    // (x,y); (vx,vy)
        UNICYCLE,  // SE2; (v, omega), heading wrapped by enforceBounds
        POINT2,    // (x,y,vx,vy); (ax,ay)
        POINT1_1D  // (x,y); one control: speed along a fixed direction field
    };
    struct System
    {
        Sys kind;
        double clo[2], chi[2];
        unsigned cdim;
        double step;
        unsigned minD, maxD;
    };
    // the harness's own copy of the dynamics (the planner gets a separate StatePropagator object built from the same formulas)
    void dynamics(const System &sy, const ob::StateSpacePtr &sp, const ob::State *in, const double *u, double dt, ob::State *out)
    {
        switch (sy.kind)
        {
            case POINT1:
            case POINT1_1D:
            {
                const double *v = in->as<ob::RealVectorStateSpace::StateType>()->values;
                double *o = out->as<ob::RealVectorStateSpace::StateType>()->values;
                if (sy.kind == POINT1)
                {
                    o[0] = v[0] + u[0] * dt;
                    o[1] = v[1] + u[1] * dt;
                }
                else
                {
                    double ang = 0.3 * v[0] + 0.2 * v[1];
                    double nx = v[0] + u[0] * std::cos(ang) * dt, ny = v[1] + u[0] * std::sin(ang) * dt;
                    o[0] = nx;
                    o[1] = ny;
                }
                break;
            }
            case UNICYCLE:
            {
                auto *q = in->as<ob::SE2StateSpace::StateType>();
                auto *o = out->as<ob::SE2StateSpace::StateType>();
                double x = q->getX(), y = q->getY(), th = q->getYaw();
                o->setXY(x + u[0] * std::cos(th) * dt, y + u[0] * std::sin(th) * dt);
                o->setYaw(th + u[1] * dt);
                sp->as<ob::SE2StateSpace>()->getSubspace(1)->enforceBounds(o->as<ob::SO2StateSpace::StateType>(1));
                break;
            }
            case POINT2:
            {
                const double *v = in->as<ob::RealVectorStateSpace::StateType>()->values;
                double *o = out->as<ob::RealVectorStateSpace::StateType>()->values;
                double x = v[0], y = v[1], vx = v[2], vy = v[3];
                o[0] = x + vx * dt;
                o[1] = y + vy * dt;
                o[2] = vx + u[0] * dt;
                o[3] = vy + u[1] * dt;
                break;
            }
        }
    }
    class Prop : public oc::StatePropagator
    {
    public:
        System sy;
        ob::StateSpacePtr sp;
        Prop(const oc::SpaceInformationPtr &si, const System &s) : oc::StatePropagator(si), sy(s), sp(si->getStateSpace())
        {
        }
        void propagate(const ob::State *state, const oc::Control *control, double duration, ob::State *result) const override
        {
            dynamics(sy, sp, state, control->as<oc::RealVectorControlSpace::ControlType>()->values, duration, result);
        }
    };
    struct CPlanner
    {
        const char *name;
        int id;
    };
    const CPlanner CP[] = {{"RRT", 0}, {"RRT(intermediate)", 1}, {"SST", 2}, {"EST", 3}, {"KPIECE1", 4}, {"PDST", 5}, {"SyclopRRT", 6}, {"SyclopEST", 7}};

    class XYDecomposition : public oc::GridDecomposition
    {
    public:
        const PlanSpace *ps;
        XYDecomposition(int len, const ob::RealVectorBounds &b, const PlanSpace *p) : oc::GridDecomposition(len, 2, b), ps(p)
        {
        }
        void project(const ob::State *s, std::vector<double> &coord) const override
        {
            coord.resize(2);
            ps->xy(s, coord[0], coord[1]);
        }
        void sampleFullState(const ob::StateSamplerPtr &sampler, const std::vector<double> &coord, ob::State *s) const override
        {
            sampler->sampleUniform(s);
            switch (ps->kind)
            {
                case SP_RN:
                    s->as<ob::RealVectorStateSpace::StateType>()->values[0] = coord[0];
                    s->as<ob::RealVectorStateSpace::StateType>()->values[1] = coord[1];
                    break;
                default:
                    s->as<ob::SE2StateSpace::StateType>()->setXY(coord[0], coord[1]);
            }
        }
    };
}  // namespace

void vf::run_case(Src &s, Ctx &c)
{
    const CPlanner &cp = CP[s.pick(8)];
    c.context(std::string("control-") + cp.name);
    unsigned seed = 1 + (unsigned)s.u(0, 1000000);
    ompl::RNG::setSeed(seed);
    System sy{};
    sy.kind = (Sys)s.weighted({4, 4, 3, 2});
    sy.cdim = sy.kind == POINT1_1D ? 1 : 2;
    sy.step = s.flag() ? 0.05 : s.real(0.02, 0.2);
    sy.minD = (unsigned)s.in(1, 4);
    sy.maxD = sy.minD + (unsigned)s.in(0, 16);
    // asymmetric control bounds in a third of the cases
    bool asym = s.chance(85);
    for (unsigned k = 0; k < 2; ++k)
    {
        double m = sy.kind == UNICYCLE && k == 1 ? s.real(0.5, 2.5) : s.real(0.5, 2.0);
        sy.clo[k] = asym ? -m * s.real(0.1, 1) : -m;
        sy.chi[k] = m;
    }
    auto P = std::make_shared<Problem>();
    PlanSpace &ps = P->ps;
    if (sy.kind == UNICYCLE)
    {
        ps.kind = SP_SE2;
        auto sp = std::make_shared<ob::SE2StateSpace>();
        ob::RealVectorBounds b2(2);
        b2.setLow(ps.lo);
        b2.setHigh(ps.hi);
        sp->setBounds(b2);
        ps.space = sp;
    }
    else
    {
        ps.kind = SP_RN;
        ps.n = sy.kind == POINT2 ? 4 : 2;
        auto sp = std::make_shared<ob::RealVectorStateSpace>(ps.n);
        ob::RealVectorBounds b(ps.n);
        for (unsigned i = 0; i < ps.n; ++i)
        {
            b.setLow(i, i < 2 ? ps.lo : -2.0);
            b.setHigh(i, i < 2 ? ps.hi : 2.0);
        }
        sp->setBounds(b);
        ps.space = sp;
    }
    auto cspace = std::make_shared<oc::RealVectorControlSpace>(ps.space, sy.cdim);
    {
        ob::RealVectorBounds cb(sy.cdim);
        for (unsigned k = 0; k < sy.cdim; ++k)
        {
            cb.setLow(k, sy.clo[k]);
            cb.setHigh(k, sy.chi[k]);
        }
        cspace->setBounds(cb);
    }
    auto csi = std::make_shared<oc::SpaceInformation>(ps.space, cspace);
    P->si = csi;
    P->env = genEnv(s, ps);
    if (P->env.obs.size() > 4)
        P->env.obs.resize(4);
    double sx = s.real(0.5, 9.5), sy0 = s.real(0.5, 9.5), gx = s.real(0.5, 9.5), gy = s.real(0.5, 9.5);
    clearAround(P->env, sx, sy0, 0.4);
    clearAround(P->env, gx, gy, 0.4);
    // validity = inside the state-space bounds and outside the obstacles (propagation is free to leave the box)
    struct BChecker : ob::StateValidityChecker
    {
        const PlanSpace *ps;
        const Env *env;
        BChecker(const ob::SpaceInformationPtr &si, const PlanSpace *p, const Env *e) : ob::StateValidityChecker(si), ps(p), env(e)
        {
        }
        bool isValid(const ob::State *st) const override
        {
            if (!ps->space->satisfiesBounds(st))
                return false;
            double x, y;
            ps->xy(st, x, y);
            return env->valid(x, y);
        }
    };
    csi->setStateValidityChecker(std::make_shared<BChecker>(csi, &P->ps, &P->env));
    csi->setStatePropagator(std::make_shared<Prop>(csi, sy));
    csi->setPropagationStepSize(sy.step);
    csi->setMinMaxControlDuration(sy.minD, sy.maxD);
    csi->setup();
    auto oracleOk = [&](const ob::State *st)
    {
        if (!ps.space->satisfiesBounds(st))
            return false;
        double x, y;
        ps.xy(st, x, y);
        return P->env.valid(x, y);
    };
    ob::State *start = csi->allocState(), *goal = csi->allocState();
    P->starts.push_back(start);
    P->goals.push_back(goal);
    auto fill = [&](ob::State *st, double x, double y)
    {
        if (ps.kind == SP_SE2)
        {
            st->as<ob::SE2StateSpace::StateType>()->setXY(x, y);
            st->as<ob::SE2StateSpace::StateType>()->setYaw(s.real(-3.1, 3.1));
        }
        else
        {
            double *v = st->as<ob::RealVectorStateSpace::StateType>()->values;
            v[0] = x;
            v[1] = y;
            for (unsigned i = 2; i < ps.n; ++i)
                v[i] = 0;
        }
    };
    fill(start, sx, sy0);
    fill(goal, gx, gy);
    P->startOk.push_back(oracleOk(start));
    P->goalOk.push_back(oracleOk(goal));
    P->threshold = s.flag() ? 0.5 : s.real(0.2, 1.5);
    P->pdef = std::make_shared<ob::ProblemDefinition>(csi);
    P->pdef->addStartState(start);
    {
        auto g = std::make_shared<ob::GoalState>(csi);
        g->setState(goal);
        g->setThreshold(P->threshold);
        P->pdef->setGoal(g);
    }
    ob::PlannerPtr pl;
    switch (cp.id)
    {
        case 0:
            pl = std::make_shared<oc::RRT>(csi);
            break;
        case 1:
        {
            auto r = std::make_shared<oc::RRT>(csi);
            r->setIntermediateStates(true);
            pl = r;
            break;
        }
        case 2:
            pl = std::make_shared<oc::SST>(csi);
            break;
        case 3:
            pl = std::make_shared<oc::EST>(csi);
            break;
        case 4:
            pl = std::make_shared<oc::KPIECE1>(csi);
            break;
        case 5:
            pl = std::make_shared<oc::PDST>(csi);
            break;
        default:
        {
            ob::RealVectorBounds b2(2);
            b2.setLow(ps.lo);
            b2.setHigh(ps.hi);
            auto dec = std::make_shared<XYDecomposition>(s.in(2, 8), b2, &P->ps);
            if (cp.id == 6)
                pl = std::make_shared<oc::SyclopRRT>(csi, dec);
            else
                pl = std::make_shared<oc::SyclopEST>(csi, dec);
        }
    }
    if (ps.kind != SP_RN || ps.n != 2)
        ps.space->registerDefaultProjection(std::make_shared<XYProjection>(ps.space, &P->ps));
    long budget = (long)std::exp(s.real(std::log(50.0), std::log(6000.0)));
    // configuration: the directed control sampler tries k candidate controls and keeps the one ending closest to the target (the library
    // default is k = 1); decoded last so that earlier saved cases keep their meaning (exhausted input -> k = 1)
    const unsigned kc = s.chance(110) ? (unsigned)s.in(2, 12) : 1;
    if (kc > 1)
        csi->setDirectedControlSamplerAllocator([kc](const oc::SpaceInformation *si) { return std::make_shared<oc::SimpleDirectedControlSampler>(si, kc); });
    c.count(kc > 1 ? "directed-sampler:k>1" : "directed-sampler:k=1(default)");
    static const char *sysName[] = {"first-order point", "unicycle", "second-order point", "1-control field follower"};
    c.note("planner=control::%s seed=%u system=%s step=%.4g durations=[%u,%u] control bounds [%.3g,%.3g]x[%.3g,%.3g] budget=%ld thr=%.3g k=%u\n start (%.3g,%.3g) goal (%.3g,%.3g) env: %s\n",
           cp.name, seed, sysName[sy.kind], sy.step, sy.minD, sy.maxD, sy.clo[0], sy.chi[0], sy.clo[1], sy.chi[1], budget, P->threshold, kc, sx, sy0, gx, gy, P->env.str().c_str());
    c.count(std::string("planner:") + cp.name);
    c.count(std::string("system:") + sysName[sy.kind]);
    try
    {
        pl->setProblemDefinition(P->pdef);
        pl->setup();
    }
    catch (const ompl::Exception &e)
    {
        c.note("exception in setup: %s\n", e.what());
        c.count("outcome:clean-rejection-by-exception");
        return;
    }
    bool anyInteresting = false;
    // the oracle for whatever the problem definition holds after one solve() call
    bool resumedSolve = false;  // C03 companion: a solve() that continues the preserved search (earlier solutions stay in the problem definition)
    auto judge = [&](ob::PlannerStatus st)
    {
        const std::string pkey = std::string("/") + cp.name;
        c.count(std::string("outcome:") + statusName(st));
        bool solved = st == ob::PlannerStatus::EXACT_SOLUTION || st == ob::PlannerStatus::APPROXIMATE_SOLUTION;
        size_t nsol = P->pdef->getSolutionCount();
        c.note("status=%s solutions=%zu\n", statusName(st), nsol);
        VCHECK(c, resumedSolve ? (!solved || nsol > 0) : solved == (nsol > 0), VF_KP "/status-pdef-mismatch" + pkey, "%s returned %s with %zu solution path(s)", cp.name, statusName(st), nsol);
        if (!solved)
            return;
        // after a continued solve the problem definition also holds what earlier calls reported, best first: the path is judged as what
        // the problem definition says it is, not by the status of this one call
        if (resumedSolve)
            st = P->pdef->hasApproximateSolution() ? ob::PlannerStatus::APPROXIMATE_SOLUTION : ob::PlannerStatus::EXACT_SOLUTION;
        auto *pc = dynamic_cast<oc::PathControl *>(P->pdef->getSolutionPath().get());
        VCHECK(c, pc != nullptr, VF_KP "/not-a-control-path" + pkey, "solution is not a PathControl");
        const size_t nc = pc->getControlCount(), ns = pc->getStateCount();
        VCHECK(c, ns == nc + 1 && ns >= 1, VF_KP "/path-shape" + pkey, "%zu states for %zu controls", ns, nc);
        VCHECK(c, ps.space->equalStates(pc->getState(0), start) && P->startOk[0], VF_KP "/start" + pkey, "control path does not start at the (valid) start state");
        ob::State *cur = csi->allocState(), *nxt = csi->allocState();
        struct G
        {
            ob::SpaceInformationPtr si;
            ob::State *a, *b;
            ~G()
            {
                si->freeState(a);
                si->freeState(b);
            }
        } guard{csi, cur, nxt};
        double worstDev = 0;
        unsigned longest = 0;
        for (size_t i = 0; i < nc; ++i)
        {
            const double *u = pc->getControl(i)->as<oc::RealVectorControlSpace::ControlType>()->values;
            for (unsigned k = 0; k < sy.cdim; ++k)
                VCHECK(c, u[k] >= sy.clo[k] && u[k] <= sy.chi[k], VF_KP "/control-out-of-bounds" + pkey, "control %zu component %u = %.9g outside [%.9g, %.9g]", i, k, u[k], sy.clo[k],
                       sy.chi[k]);
            double dur = pc->getControlDuration(i);
            double q = dur / sy.step;
            long n = std::lround(q);
            VCHECK(c, std::fabs(q - (double)n) <= 1e-9 * std::max(1.0, q) && n >= 1, VF_KP "/duration-not-whole-steps" + pkey, "control %zu has duration %.12g = %.12g steps of %.6g", i,
                   dur, q, sy.step);
            VCHECK(c, (unsigned long)n <= sy.maxD, VF_KP "/duration-too-long" + pkey, "control %zu lasts %ld steps, maximum is %u", i, n, sy.maxD);
            longest = std::max(longest, (unsigned)n);
            // replay from the *recorded* state with the harness's own dynamics
            VCHECK(c, oracleOk(pc->getState(i)), VF_KP "/invalid-path-state" + pkey, "path state %zu is invalid", i);
            csi->copyState(cur, pc->getState(i));
            for (long k = 0; k < n; ++k)
            {
                dynamics(sy, ps.space, cur, u, sy.step, nxt);
                if (!oracleOk(nxt))
                {
                    double x, y;
                    ps.xy(nxt, x, y);
                    c.fail(VF_KP "/replay-hits-invalid-state" + pkey, vf::fmt("%s: replaying control %zu of %zu, propagation step %ld of %ld lands on an invalid state (%.6g,%.6g)", cp.name,
                                                                         i, nc, k + 1, n, x, y));
                }
                std::swap(cur, nxt);
            }
            guard.a = cur;
            guard.b = nxt;
            double dev = csi->distance(cur, pc->getState(i + 1));
            worstDev = std::max(worstDev, dev);
            VCHECK(c, dev <= std::numeric_limits<float>::epsilon(), VF_KP "/replay-deviates" + pkey, "%s: replaying control %zu (%ld steps) ends %.6g away from recorded state %zu", cp.name, i, n,
                   dev, i + 1);
        }
        c.stat("replay-deviation", worstDev);
        const ob::State *last = pc->getState(ns - 1);
        bool approx = P->pdef->hasApproximateSolution();
        double dg = csi->distance(last, goal);
        if (st == ob::PlannerStatus::EXACT_SOLUTION)
        {
            VCHECK(c, !approx, VF_KP "/exact-status-approximate-flag" + pkey, "EXACT_SOLUTION but flagged approximate");
            VCHECK(c, P->pdef->getGoal()->isSatisfied(last), VF_KP "/goal-not-reached" + pkey, "%s: exact solution ends %.6g from the goal (threshold %.6g)", cp.name, dg, P->threshold);
        }
        else
        {
            VCHECK(c, approx, VF_KP "/approximate-status-exact-flag" + pkey, "APPROXIMATE_SOLUTION but not flagged approximate");
            double diff = P->pdef->getSolutionDifference();
            if (!(std::fabs(diff - dg) <= 1e-9 * (1 + dg)))
                c.failOrKnown(VF_KP "/approximate-difference-mismatch" + pkey, vf::fmt("%s: reported difference %.9g, last state is %.9g from the goal", cp.name, diff, dg));
        }
        VCHECK(c, pc->check(), VF_KP "/library-check-disagrees" + pkey, "the harness replay accepts the path but PathControl::check() rejects it");
        c.count(nc >= 2 ? "solution:>=2controls" : "solution:short");
        anyInteresting = anyInteresting || (nc >= 2 && (longest > 1 || !P->env.obs.empty()));
    };
    // one solve() whose termination condition first fires at evaluation `limit`; false = the case ends here (clean rejection)
    auto solveOnce = [&](long limit) -> bool
    {
        CountPTC ptc(&c);
        ptc.limit = limit;
        ob::PlannerStatus st;
        try
        {
            st = pl->solve(ptc.make());
        }
        catch (const ompl::Exception &e)
        {
            c.note("exception: %s\n", e.what());
            VCHECK(c, P->pdef->getSolutionCount() == 0, std::string(VF_KP "/exception-after-solution/") + cp.name, "%s threw after reporting a solution: %s", cp.name, e.what());
            c.count("outcome:clean-rejection-by-exception");
            return false;
        }
        judge(st);
        return true;
    };
#ifndef VF_C03C
    solveOnce(budget);
    c.nontrivial = anyInteresting;
#else
    // history: solve(k1) [-> {solve again | clear + drop the reported solutions, solve}(k)]*
    auto genK = [&]() -> long
    {
        size_t kk = s.weighted({1, 3, 3});
        return kk == 0 ? 0 : kk == 1 ? (long)s.in(1, 40) : (long)std::exp(s.real(0, std::log((double)budget)));
    };
    long k1 = genK();
    c.note("history: solve(k=%ld)", k1);
    if (!solveOnce(k1))
        return;
    int steps = s.in(0, 2);
    for (int i = 0; i < steps; ++i)
    {
        bool clearFirst = s.flag();
        long k = genK();
        c.note(" -> %ssolve(k=%ld)", clearFirst ? "clear, " : "", k);
        c.count(clearFirst ? "history:clear+solve" : "history:solve-again");
        if (clearFirst)
        {
            P->pdef->clearSolutionPaths();
            pl->clear();
        }
        resumedSolve = !clearFirst;
        if (!solveOnce(k))
            return;
    }
    // epilogue (decoded last, so that saved cases - which end before it - keep their meaning): a solve with the whole budget, i.e. usually
    // up to a solution, followed by a short continued solve. What a planner does on a continued solve *after* it has found a solution is
    // otherwise almost never reached by the steps above, whose first solve is cut early.
    if (s.chance(110))
    {
        c.count("history:epilogue(full solve, short continued solve)");
        c.note(" => solve(k=%ld)", budget);
        resumedSolve = true;
        if (!solveOnce(budget))
            return;
        long k = 1 + (long)s.in(0, 60);
        c.note(" -> solve(k=%ld)", k);
        if (!solveOnce(k))
            return;
        steps = std::max(steps, 1);
    }
    // second epilogue (decoded last): a new query on the same planner after the caller has tightened the control bounds - clear(), drop the
    // reported solutions, RealVectorControlSpace::setBounds() with a fraction of the old range, solve. Nothing a planner or a sampler derived
    // from the old bounds may survive: every control of the new solution lies within the new bounds.
    if (s.chance(64))
    {
        double f = s.real(0.2, 0.8);
        ob::RealVectorBounds cb(sy.cdim);
        for (unsigned k = 0; k < sy.cdim; ++k)
        {
            double mid = 0.5 * (sy.clo[k] + sy.chi[k]), half = 0.5 * (sy.chi[k] - sy.clo[k]) * f;
            sy.clo[k] = mid - half;
            sy.chi[k] = mid + half;
            cb.setLow(k, sy.clo[k]);
            cb.setHigh(k, sy.chi[k]);
        }
        P->pdef->clearSolutionPaths();
        pl->clear();
        cspace->setBounds(cb);
        resumedSolve = false;
        c.count("history:epilogue(clear, tighter control bounds, solve)");
        c.note(" => clear, control bounds x %.3g, solve(k=%ld)", f, budget);
        if (!solveOnce(budget))
            return;
        steps = std::max(steps, 1);
    }
    c.note("\n");
    c.nontrivial = steps > 0 || anyInteresting;
#endif
}

#include "../core/runner.h"
