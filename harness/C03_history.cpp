// C03 — interrupting, resuming or clearing a planner never corrupts its result.
// One case per forked child (LeakSanitizer runs at child exit): planner x two queries on one space x generated history of
// solve(k) / clear / clearQuery / new problem definition (+clear or clearQuery) / getPlannerData / clearSolutionPaths,
// with the termination condition first firing at evaluation k.
#define VF_DETECT_LEAKS 1
#include "../gen/planning.h"
#include "ompl/base/PlannerData.h"

namespace ob = ompl::base;
namespace og = ompl::geometric;
using namespace plan;

#define VF_HAS_PROCESS_INIT
void vf::process_init()
{
    ompl::msg::setLogLevel(ompl::msg::LOG_NONE);
}

vf::Config vf::config()
{
    Config c;
    c.property = "C03";
    c.maxLen = 300;
    c.batch = 1;
    c.caseTimeout = 30;
    c.hardTimeout = 150;
    c.leaks = true;
    return c;
}

namespace
{
    struct Query
    {
        ob::ProblemDefinitionPtr pdef;
        ob::State *start = nullptr, *goal = nullptr;
        double sx, sy, gx, gy;
    };
    // per-planner bound on evaluations after the condition first fired (calibrated on the unchanged tree, x10; DESIGN section 4/C03)
    long afterFireBound(const PlannerInfo &pi)
    {
        std::string n = pi.name;
        if (n == "AnytimePathShortening")
            return 50000000;  // polls the condition in a busy loop while its worker threads finish
        if (pi.threaded)
            return 5000;
        return 500;
    }
}  // namespace

void vf::run_case(Src &s, Ctx &c)
{
    const auto &R = registry();
    size_t pidx = s.pick(R.size());
    // exploration aid (never set by ./check): sweep one planner, e.g. VF_FORCE_PLANNER=FMT ./check C03
    if (const char *fp = std::getenv("VF_FORCE_PLANNER"))
        if (findPlanner(fp) >= 0)
            pidx = (size_t)findPlanner(fp);
    const PlannerInfo &pi = R[pidx];
    c.context(pi.name);
    unsigned seed = 1 + (unsigned)s.u(0, 1000000);
    ompl::RNG::setSeed(seed);
    // space and environment
    auto P = std::make_shared<Problem>();
    P->ps.kind = s.flag() ? SP_SE2 : SP_RN;
    if (P->ps.kind == SP_RN)
    {
        P->ps.n = 2 + (unsigned)s.pick(2);
        auto sp = std::make_shared<ob::RealVectorStateSpace>(P->ps.n);
        sp->setBounds(P->ps.lo, P->ps.hi);
        P->ps.space = sp;
    }
    else
    {
        auto sp = std::make_shared<ob::SE2StateSpace>();
        ob::RealVectorBounds b2(2);
        b2.setLow(P->ps.lo);
        b2.setHigh(P->ps.hi);
        sp->setBounds(b2);
        P->ps.space = sp;
    }
    P->resolution = s.flag() ? 0.01 : s.logreal(0.005, 0.05);
    P->ps.space->setLongestValidSegmentFraction(P->resolution);
    P->si = std::make_shared<ob::SpaceInformation>(P->ps.space);
    P->env = genEnv(s, P->ps);
    if (P->env.obs.size() > 3)
        P->env.obs.resize(3);
    // two queries in opposite corners, far apart (>= 10 r) so that a stale state can never be mistaken for a current one
    Query Q[2];
    double jit[8];
    for (double &j : jit)
        j = s.real(-0.5, 0.5);
    Q[0].sx = 1 + jit[0], Q[0].sy = 1 + jit[1], Q[0].gx = 9 + jit[2], Q[0].gy = 9 + jit[3];
    Q[1].sx = 9 + jit[4], Q[1].sy = 1 + jit[5], Q[1].gx = 1 + jit[6], Q[1].gy = 9 + jit[7];
    for (auto &q : Q)
    {
        clearAround(P->env, q.sx, q.sy, 0.3);
        clearAround(P->env, q.gx, q.gy, 0.3);
    }
    P->checker = std::make_shared<Checker>(P->si, &P->ps, &P->env);
    P->si->setStateValidityChecker(P->checker);
    P->si->setup();
    P->threshold = s.flag() ? 0.1 : 0.5;
    P->goalKind = s.flag() ? 0 : 1;
    for (auto &q : Q)
    {
        q.start = P->si->allocState();
        q.goal = P->si->allocState();
        P->ps.makeState(s, q.start, q.sx, q.sy);
        P->ps.makeState(s, q.goal, q.gx, q.gy);
        q.pdef = std::make_shared<ob::ProblemDefinition>(P->si);
        q.pdef->addStartState(q.start);
        if (P->goalKind == 0)
        {
            auto g = std::make_shared<ob::GoalState>(P->si);
            g->setState(q.goal);
            g->setThreshold(P->threshold);
            q.pdef->setGoal(g);
        }
        else
        {
            auto g = std::make_shared<ob::GoalStates>(P->si);
            g->addState(q.goal);
            g->setThreshold(P->threshold);
            q.pdef->setGoal(g);
        }
    }
    struct Free
    {
        ob::SpaceInformationPtr si;
        Query *q;
        ~Free()
        {
            for (int i = 0; i < 2; ++i)
            {
                si->freeState(q[i].start);
                si->freeState(q[i].goal);
            }
        }
    } freer{P->si, Q};
    auto pointAt = [&](int qi)
    {
        // make the shared oracle structure describe query qi
        P->starts.assign(1, Q[qi].start);
        P->goals.assign(1, Q[qi].goal);
        P->startOk.assign(1, true);
        P->goalOk.assign(1, true);
        P->pdef = Q[qi].pdef;
    };
    struct Unown
    {
        Problem *p;
        ~Unown()
        {
            p->starts.clear();  // owned by the queries, not by the Problem
            p->goals.clear();
        }
    } unown{P.get()};
    c.note("planner=%s seed=%u %s res=%.4g thr=%.3g goal=%s env: %s\n q0 (%.3g,%.3g)->(%.3g,%.3g)  q1 (%.3g,%.3g)->(%.3g,%.3g)\n history: ", pi.name, seed,
           P->ps.name().c_str(), P->resolution, P->threshold, P->goalKind == 0 ? "GoalState" : "GoalStates", P->env.str().c_str(), Q[0].sx, Q[0].sy, Q[0].gx, Q[0].gy,
           Q[1].sx, Q[1].sy, Q[1].gx, Q[1].gy);
    c.count(std::string("planner:") + pi.name);

    ob::PlannerPtr pl = pi.make(P->si);
    // FMT / BFMT spend their first num_samples evaluations on drawing the sample batch (default 1000): within the history budgets they would
    // almost never get past it, and everything after their first solution would stay unexplored. The batch size follows the already decoded seed.
    if (std::string(pi.name) == "FMT" || std::string(pi.name) == "BFMT")
        pl->params().setParam("num_samples", std::to_string(60 + seed % 240));
    const std::string pkey = std::string("/") + pi.name;
    int cur = 0;
    pointAt(cur);
    bool interruptedBeforeSolution = false, ntHistory = false;
    bool cleanSinceQueryChange = true;  // planner state matches the current pdef (documented protocol)
    bool solvedBefore = false;          // a solve happened on the current query since the last clear: next solve is a resume
    bool prevExact = false;
    double prevLen = 0, prevDiff = 0;
    bool havePrev = false;
    bool sawInterruptThenResumeOrClear = false;
    bool pendingInterrupt = false;
    try
    {
        pl->setProblemDefinition(Q[cur].pdef);
        pl->setup();
    }
    catch (const ompl::Exception &e)
    {
        c.count("outcome:setup-rejected");
        throw Skip{std::string("setup rejected: ") + e.what()};
    }
    // one solve() whose termination condition first fires at evaluation k, and everything that is judged after it
    auto solveStep = [&](long k, int stp)
    {
        CountPTC ptc(&c);
        ptc.limit = k;
        // a quarter of the resumed solves are preceded by the caller dropping the stored paths (decided by the already decoded k, so
        // that saved cases keep their meaning): the status of the resumed solve must still describe what the pdef then holds
        if (solvedBefore && k % 4 == 1)
        {
            c.note("clearSolutionPaths ");
            c.count("history:clearSolutionPaths-before-resume");
            Q[cur].pdef->clearSolutionPaths();
            havePrev = false;
        }
        c.note("solve(k=%ld) ", k);
        size_t before = Q[cur].pdef->getSolutionCount();
        ob::PlannerStatus st;
        try
        {
            st = pl->solve(ptc.make());
        }
        catch (const ompl::Exception &e)
        {
            c.note("[exception: %s] ", e.what());
            if (Q[cur].pdef->getSolutionCount() > before)
                c.failOrKnown("C03/exception-after-solution" + pkey, vf::fmt("%s threw '%s' out of solve() after reporting a solution", pi.name, e.what()));
            c.count("outcome:exception");
            st = ob::PlannerStatus::ABORT;
            // the planner's state after an exception is unspecified: clear before going on
            pl->clear();
            solvedBefore = false;
            havePrev = false;
            return;
        }
        long calls = ptc.calls->load();
        long after = calls - k - 1;
        c.note("-> %s [%ld evals] ", statusName(st), calls);
        c.stat(std::string("evaluations-after-fire:") + (pi.threaded ? "threaded" : "single"), (double)std::max(0L, after));
        VCHECK(c, after <= afterFireBound(pi), "C03/late-return" + pkey, "%s evaluated the termination condition %ld more times after it first fired (bound %ld)", pi.name,
               after, afterFireBound(pi));
        size_t nsol = Q[cur].pdef->getSolutionCount();
        bool solvedStatus = st == ob::PlannerStatus::EXACT_SOLUTION || st == ob::PlannerStatus::APPROXIMATE_SOLUTION;
        const bool resumed = solvedBefore;
        if (!resumed)
        {
            // first solve of this query on a fresh or cleared planner: full C01 coherence
            if (before == 0)
            {
                VCHECK(c, solvedStatus == (nsol > 0), "C03/status-pdef-mismatch" + pkey, "%s returned %s but the problem definition holds %zu solution(s)", pi.name,
                       statusName(st), nsol);
            }
            if (st == ob::PlannerStatus::INVALID_START || st == ob::PlannerStatus::INVALID_GOAL || st == ob::PlannerStatus::UNRECOGNIZED_GOAL_TYPE)
            {
                bool okPSBL = std::string(pi.name) == "pSBL" && P->goalKind != 0 && st == ob::PlannerStatus::UNRECOGNIZED_GOAL_TYPE;
                if (!okPSBL)
                    c.failOrKnown("C03/untruthful-status" + pkey, vf::fmt("%s answered %s to a valid query (%s)", pi.name, statusName(st),
                                                                          stp == 0 ? "first solve" : "after clear / new problem definition"));
            }
        }
        else
        {
            if (solvedStatus)
                VCHECK(c, nsol > 0, "C03/status-pdef-mismatch" + pkey, "%s returned %s on a resumed solve but the problem definition is empty", pi.name, statusName(st));
            if (st == ob::PlannerStatus::EXACT_SOLUTION)
                VCHECK(c, Q[cur].pdef->hasExactSolution(), "C03/exact-status-without-exact-solution" + pkey, "%s returned EXACT_SOLUTION but the best stored solution is approximate",
                       pi.name);
        }
        VCHECK(c, st != ob::PlannerStatus::CRASH, "C03/status-CRASH" + pkey, "%s returned CRASH", pi.name);
        if (nsol > 0)
        {
            auto *pg = dynamic_cast<og::PathGeometric *>(Q[cur].pdef->getSolutionPath().get());
            VCHECK(c, pg && pg->getStateCount() > 0, "C03/empty-path" + pkey, "%s: reported solution is empty", pi.name);
            const ob::State *last = pg->getState(pg->getStateCount() - 1);
            bool approx = Q[cur].pdef->hasApproximateSolution();
            if (!approx && !Q[cur].pdef->getGoal()->isSatisfied(last))
                c.failOrKnown("C03/half-built-path" + pkey, vf::fmt("%s: solution not flagged approximate but its last state does not satisfy the goal (%zu states)", pi.name,
                                                                    pg->getStateCount()));
            if (pg->getStateCount() == 1 && !approx)
                VCHECK(c, Q[cur].pdef->getGoal()->isSatisfied(last), "C03/one-state-solution" + pkey, "%s: 1-state solution whose state is not a goal", pi.name);
            PathVerdict v = checkPath(*P, *pg, pi.strictRecheck, true);
            if (!v.ok())
                c.failOrKnown("C03/" + v.key + pkey, vf::fmt("%s after history step %d: %s", pi.name, stp, v.msg.c_str()));
            // clear forgets: no state of the path may be a start/goal of the other query
            int other = 1 - cur;
            for (size_t i = 0; i < pg->getStateCount(); ++i)
                if (P->ps.space->equalStates(pg->getState(i), Q[other].start) || P->ps.space->equalStates(pg->getState(i), Q[other].goal))
                {
                    // after clearQuery a roadmap may legitimately keep old query states as ordinary vertices, but never as an endpoint
                    bool endpoint = i == 0 || i + 1 == pg->getStateCount();
                    if (endpoint || cleanSinceQueryChange)
                        c.failOrKnown("C03/stale-state" + pkey, vf::fmt("%s: path state %zu of %zu is a start/goal state of the previous query", pi.name, i,
                                                                        pg->getStateCount()));
                }
            // resume monotonicity
            double len = pg->length();
            double diff = approx ? Q[cur].pdef->getSolutionDifference() : 0;
            if (resumed && havePrev)
            {
                if (prevExact)
                {
                    VCHECK(c, !approx, "C03/resume-lost-exact" + pkey, "%s: the query had an exact solution, after another solve() the best one is approximate", pi.name);
                    // planners that defer cost propagation (RRT#, RRTX, LBTRRT, ...) rank their solutions by stored costs that may exceed the true
            // ones (C04): a new top solution with a better stored cost can be truly longer than the old one. Seen at eight times the
            // quick case count once the epilogue made "continued solve after a solution" common; the length clause is for the others.
            if (pi.optimizing && !pi.deferredCost)
                        VCHECK(c, len <= prevLen * (1 + 1e-9) + 1e-9, "C03/resume-worse" + pkey, "%s: best solution length grew from %.9g to %.9g on a resumed solve", pi.name,
                               prevLen, len);
                }
                else if (approx)
                    VCHECK(c, diff <= prevDiff * (1 + 1e-9) + 1e-9, "C03/resume-worse" + pkey, "%s: best approximate difference grew from %.9g to %.9g on a resumed solve",
                           pi.name, prevDiff, diff);
            }
            prevExact = !approx;
            prevLen = len;
            prevDiff = diff;
            havePrev = true;
        }
        if (pendingInterrupt)
            sawInterruptThenResumeOrClear = true;
        pendingInterrupt = calls > 1 && !Q[cur].pdef->hasExactSolution();
        if (pendingInterrupt)
            interruptedBeforeSolution = true;
        solvedBefore = true;
    };
    int steps = s.in(1, 7);
    for (int stp = 0; stp < steps && !s.exhausted(); ++stp)
    {
        size_t what = s.weighted({8, 2, 2, 3, 1, 1});
        if (stp == 0)
            what = 0;
        switch (what)
        {
            case 0:
            {
                // solve with the condition first firing at evaluation k
                long k;
                switch (s.weighted({3, 4, 3}))
                {
                    case 0:
                        k = (long)s.in(0, 3);
                        break;
                    case 1:
                        k = (long)s.in(0, 40);
                        break;
                    default:
                        k = (long)(std::exp(s.real(0, std::log(2500.0))) * pi.budgetScale);
                }
                solveStep(k, stp);
                break;
            }
            case 1:
                c.note("clear ");
                pl->clear();
                Q[cur].pdef->clearSolutionPaths();
                solvedBefore = false;
                havePrev = false;
                cleanSinceQueryChange = true;
                if (pendingInterrupt)
                    sawInterruptThenResumeOrClear = true;
                pendingInterrupt = false;
                break;
            case 2:
                c.note("clearQuery ");
                pl->clearQuery();
                Q[cur].pdef->clearSolutionPaths();
                solvedBefore = false;
                havePrev = false;
                break;
            case 3:
            {
                // switch to the other query in the documented way: new problem definition, then clear() or clearQuery()
                cur = 1 - cur;
                pointAt(cur);
                Q[cur].pdef->clearSolutionPaths();
                bool full = s.flag();
                c.note("setProblemDefinition(q%d)+%s ", cur, full ? "clear" : "clearQuery");
                try
                {
                    pl->setProblemDefinition(Q[cur].pdef);
                    if (full)
                        pl->clear();
                    else
                        pl->clearQuery();
                }
                catch (const ompl::Exception &e)
                {
                    throw Skip{std::string("setProblemDefinition rejected: ") + e.what()};
                }
                cleanSinceQueryChange = full;
                solvedBefore = false;
                havePrev = false;
                if (pendingInterrupt)
                    sawInterruptThenResumeOrClear = true;
                pendingInterrupt = false;
                break;
            }
            case 4:
            {
                c.note("getPlannerData ");
                ob::PlannerData pd(P->si);
                pl->getPlannerData(pd);
                // after a full clear nothing of the other query may remain in the planner's data
                if (cleanSinceQueryChange && !solvedBefore)
                {
                    int other = 1 - cur;
                    for (unsigned i = 0; i < pd.numVertices(); ++i)
                    {
                        const ob::State *vs = pd.getVertex(i).getState();
                        if (vs && (P->ps.space->equalStates(vs, Q[other].start) || P->ps.space->equalStates(vs, Q[other].goal)))
                            c.failOrKnown("C03/stale-state-in-planner-data" + pkey,
                                          vf::fmt("%s: after clear() the planner data still holds a start/goal state of the previous query (vertex %u of %u)", pi.name, i,
                                                  pd.numVertices()));
                    }
                }
                c.stat("planner-data-vertices", pd.numVertices());
                break;
            }
            default:
                c.note("clearSolutionPaths ");
                Q[cur].pdef->clearSolutionPaths();
                havePrev = false;
                break;
        }
    }
    // epilogue (decoded last, so that saved cases - which end before it - keep their meaning): a solve with a budget from the top of the range,
    // i.e. usually up to a solution, then a short continued solve (which the k % 4 rule precedes by clearSolutionPaths() in a quarter of
    // the cases). What a planner does on a continued solve *after* it has found a solution is rarely reached by the steps above.
    if (s.chance(96))
    {
        c.count("history:epilogue(long solve, short continued solve)");
        solveStep((long)(s.real(1200, 2500) * pi.budgetScale), steps);
        solveStep((long)s.in(0, 63), steps + 1);
    }
    ntHistory = sawInterruptThenResumeOrClear;
    c.count(interruptedBeforeSolution ? "history:interrupted-before-solution" : "history:no-interrupt");
    c.nontrivial = ntHistory;
    // planner, problem definitions and paths are destroyed here; LeakSanitizer judges what is left when the child exits
}

#include "../core/runner.h"
