// C01B — companion of C01: the geometric / multilevel planners that need a bespoke fixture and are therefore not in the shared registry.
//   * multilevel planners (QRRT, QRRTStar, QMP, QMPStar) on real 2- and 3-level bundle sequences (SE2 -> R2, SE3 -> R3, R^n -> R^m -> R^2,
//     relaxations R^2 -> R^2 with a subset of the obstacles); the shared registry only builds 1-level sequences
//   * VFRRT (RRT guided by a user vector field) on R^n
//   * TSRRT (task-space RRT) on R^n with the (x, y) task space
//   * STRRTstar on a space-time space (R^2 x time, speed limit, static and moving obstacles, bounded or unbounded time)
//   * XXL with a grid decomposition of the (x, y) position (R^n and SE2)
//   * LightningRetrieveRepair on a generated experience database (paths recorded "in another environment": partly invalid now)
// Histories: first solve, optionally a continued solve, optionally clear() + solve. Oracle: the C01 clauses (status <-> problem
// definition, valid start, raw bounds, dense validity / own motion re-check, goal reached or truthful approximate flag and difference).
#include <sstream>
#include "../gen/planning.h"
#include "ompl/base/spaces/SpaceTimeStateSpace.h"
#include "ompl/base/spaces/TimeStateSpace.h"
#include "ompl/base/goals/GoalSampleableRegion.h"
#include "ompl/geometric/planners/rrt/STRRTstar.h"
#include "ompl/geometric/planners/rrt/TSRRT.h"
#include "ompl/geometric/planners/rrt/VFRRT.h"
#include "ompl/geometric/planners/experience/LightningRetrieveRepair.h"
#include "ompl/tools/lightning/LightningDB.h"
#include "ompl/geometric/planners/xxl/XXL.h"
#include "ompl/geometric/planners/xxl/XXLPositionDecomposition.h"

namespace ob = ompl::base;
namespace og = ompl::geometric;
using namespace plan;

#define KP "C01"

#define VF_HAS_PROCESS_INIT
void vf::process_init()
{
    ompl::msg::setLogLevel(ompl::msg::LOG_NONE);
}

vf::Config vf::config()
{
    Config c;
    c.property = "C01";
    c.maxLen = 900;
    c.batch = 1;
    c.caseTimeout = 30;
    c.hardTimeout = 150;
    return c;
}

// ---------------------------------------------------------------------------------------------------------------------------------
// shared judgement of one solve() outcome on a plan::Problem (clauses of C01); `strict` = re-check every consecutive pair
static void judge(vf::Ctx &c, const char *name, const std::string &pkey, Problem &P, ob::PlannerStatus st, bool rejected, const std::string &why, size_t solBefore,
                  bool strict, bool bidir, bool firstSolve, bool unrecognizedMeansNoInput = false)
{
    size_t nsol = P.pdef->getSolutionCount();
    if (rejected)
    {
        c.note("exception: %s\n", why.c_str());
        if (nsol == solBefore)
        {
            c.count("outcome:clean-rejection-by-exception");
            return;
        }
        c.failOrKnown(KP "/exception-after-solution" + pkey, vf::fmt("%s threw '%s' out of solve() after having reported a solution", name, why.c_str()));
        st = P.pdef->hasApproximateSolution() ? ob::PlannerStatus::APPROXIMATE_SOLUTION : ob::PlannerStatus::EXACT_SOLUTION;
    }
    c.note("status=%s solutions=%zu\n", statusName(st), nsol);
    c.count(std::string("outcome:") + statusName(st));
    const bool solved = st == ob::PlannerStatus::EXACT_SOLUTION || st == ob::PlannerStatus::APPROXIMATE_SOLUTION;
    if (!solved)
    {
        VCHECK(c, nsol == solBefore, KP "/non-solution-status-with-path" + pkey, "%s returned %s but added %zu solution path(s)", name, statusName(st), nsol - solBefore);
        bool anyStart = false, anyGoal = false;
        for (bool okk : P.startOk)
            anyStart |= okk;
        for (bool okk : P.goalOk)
            anyGoal |= okk;
        if (st == ob::PlannerStatus::INVALID_START && firstSolve)
            VCHECK(c, !anyStart, KP "/untruthful-INVALID_START" + pkey, "%s returned INVALID_START although a valid in-bounds start state exists", name);
        if (st == ob::PlannerStatus::INVALID_GOAL && anyGoal && P.goalKind != 2)
            c.failOrKnown(!P.goalOk[0] ? std::string(KP "/untruthful-INVALID_GOAL(first-goal-state-invalid)") : KP "/untruthful-INVALID_GOAL" + pkey,
                          vf::fmt("%s returned INVALID_GOAL although a valid, sampleable goal state exists", name));
        if (st == ob::PlannerStatus::UNRECOGNIZED_GOAL_TYPE)
            // (the retrieve-repair planner answers with this status whenever it got no start or no goal state)
            VCHECK(c, P.goalKind == 2 || (unrecognizedMeansNoInput && (!anyStart || !anyGoal || !P.startOk[0] || !P.goalOk[0])),
                   KP "/untruthful-UNRECOGNIZED_GOAL_TYPE" + pkey, "%s returned UNRECOGNIZED_GOAL_TYPE for a sampleable goal", name);
        VCHECK(c, st != ob::PlannerStatus::CRASH, KP "/status-CRASH" + pkey, "%s returned CRASH", name);
        return;
    }
    VCHECK(c, nsol > 0, KP "/solution-status-without-path" + pkey, "%s returned %s but the problem definition holds no solution path", name, statusName(st));
    auto *pg = dynamic_cast<og::PathGeometric *>(P.pdef->getSolutionPath().get());
    VCHECK(c, pg != nullptr, KP "/not-geometric-path" + pkey, "solution path is not a PathGeometric");
    VCHECK(c, pg->getStateCount() > 0, KP "/empty-path" + pkey, "%s reported a solution with no states", name);
    const ob::State *last = pg->getState(pg->getStateCount() - 1);
    const bool approxFlag = P.pdef->hasApproximateSolution();
    auto *goalRegion = dynamic_cast<ob::GoalRegion *>(P.pdef->getGoal().get());
    if (firstSolve)
    {
        if (st == ob::PlannerStatus::EXACT_SOLUTION)
        {
            VCHECK(c, !approxFlag, KP "/exact-status-approximate-flag" + pkey, "%s returned EXACT_SOLUTION but the reported solution is flagged approximate", name);
            if (!(P.pdef->getGoal()->isSatisfied(last)))
                c.failOrKnown(KP "/exact-but-goal-not-reached" + pkey, vf::fmt("%s returned EXACT_SOLUTION but the last path state is %.6g from the goal (threshold %.6g)",
                                                                              name, goalRegion->distanceGoal(last), P.threshold));
        }
        else
        {
            VCHECK(c, approxFlag, KP "/approximate-status-exact-flag" + pkey, "%s returned APPROXIMATE_SOLUTION but the reported solution is not flagged approximate", name);
            double diff = P.pdef->getSolutionDifference(), dg = goalRegion->distanceGoal(last);
            double tol = 1e-9 * (1 + dg) + (P.ps.kind == SP_SE3 ? 1e-4 : 0);
            if (!(std::fabs(diff - dg) <= tol))
                c.failOrKnown(KP "/approximate-difference-mismatch" + pkey,
                              vf::fmt("%s: reported goal difference %.9g but the last path state is %.9g from the goal", name, diff, dg));
        }
    }
    else if (!approxFlag && !(P.pdef->getGoal()->isSatisfied(last)))
        c.failOrKnown(KP "/exact-but-goal-not-reached" + pkey, vf::fmt("%s: the best stored solution is flagged exact but its last state is %.6g from the goal", name,
                                                                      goalRegion->distanceGoal(last)));
    PathVerdict v = checkPath(P, *pg, strict, bidir);
    c.stat("invalid-run/r", v.worstRun);
    if (!v.ok())
    {
        std::ostringstream os;
        pg->printAsMatrix(os);
        c.note("reported path (one state per line):\n%s", os.str().substr(0, 3000).c_str());
        c.failOrKnown(KP "/" + v.key + pkey, vf::fmt("%s on %s: %s [%s, %zu states]", name, P.ps.name().c_str(), v.msg.c_str(), statusName(st), pg->getStateCount()));
    }
    bool hadToAvoid = !straightLineFree(P);
    c.count(hadToAvoid ? "solution:straight-line-blocked" : "solution:straight-line-free");
    c.nontrivial = c.nontrivial || hadToAvoid || P.scenario != SC_NORMAL;
}

// history shared by the fixtures on plan::Problem: solve [-> solve again] [-> clear + solve]
static void runHistory(vf::Src &s, vf::Ctx &c, const char *name, const std::string &pkey, Problem &P, const ob::PlannerPtr &pl, double budgetScale, bool strict,
                       bool bidir, bool unrecognizedMeansNoInput = false, bool noClear = false)
{
    int steps = 1 + (int)s.weighted({5, 3, 2});
    bool first = true;
    for (int i = 0; i < steps; ++i)
    {
        bool doClear = i > 0 && s.flag();
        if (doClear && noClear)
        {
            doClear = false;  // known finding excluded by construction (counted by the caller's key)
            c.knownHits["hang/XXL"]++;
        }
        double b = s.weighted({1, 8}) == 0 ? 0 : std::exp(s.real(0, std::log(4000.0)));
        long budget = (long)(b * budgetScale);
        CountPTC ptc(&c);
        ptc.limit = budget;
        ob::PlannerStatus st = ob::PlannerStatus::UNKNOWN;
        bool rejected = false;
        std::string why;
        if (doClear)
        {
            pl->clear();
            P.pdef->clearSolutionPaths();
            first = true;
            c.count("history:clear+solve");
        }
        else if (i > 0)
            c.count("history:continued-solve");
        size_t before = P.pdef->getSolutionCount();
        c.note("step %d: %ssolve(budget %ld)\n", i, doClear ? "clear + " : "", budget);
        try
        {
            if (i == 0)
            {
                pl->setProblemDefinition(P.pdef);
                pl->setup();
            }
            st = pl->solve(ptc.make());
        }
        catch (const ompl::Exception &e)
        {
            rejected = true;
            why = e.what();
        }
        judge(c, name, pkey, P, st, rejected, why, before, strict, bidir, first, unrecognizedMeansNoInput);
        if (rejected)
            return;
        first = false;
        if (i > 0)
            c.nontrivial = true;
    }
}

// ---------------------------------------------------------------------------------------------------------------------------------
// fixture 1: real bundle sequences for the multilevel planners
struct BaseChecker : ob::StateValidityChecker
{
    const Env *env;
    bool r3;
    BaseChecker(const ob::SpaceInformationPtr &si, const Env *e) : ob::StateValidityChecker(si), env(e)
    {
    }
    bool isValid(const ob::State *st) const override
    {
        auto *v = st->as<ob::RealVectorStateSpace::StateType>()->values;
        return env->valid(v[0], v[1]);
    }
};
static ob::SpaceInformationPtr baseLevel(unsigned dim, const PlanSpace &ps, const Env *env)
{
    auto sp = std::make_shared<ob::RealVectorStateSpace>(dim);
    sp->setBounds(ps.lo, ps.hi);
    auto si = std::make_shared<ob::SpaceInformation>(sp);
    si->setStateValidityChecker(std::make_shared<BaseChecker>(si, env));
    si->setup();
    return si;
}
static void fixtureMultilevel(vf::Src &s, vf::Ctx &c)
{
    static const char *names[] = {"QRRT", "QRRTStar", "QMP", "QMPStar"};
    int which = (int)s.pick(4);
    ProblemOpts o;
    static const int kinds[] = {SP_RN, SP_SE2, SP_SE3};
    o.forceKind = kinds[s.weighted({3, 3, 2})];
    std::shared_ptr<Problem> P;
    try
    {
        P = genProblem(s, o);
    }
    catch (const ompl::Exception &e)
    {
        throw vf::Skip{std::string("problem construction rejected: ") + e.what()};
    }
    // the levels below the top one; obstacles live in (x, y), so every projection keeps them: base validity is necessary for validity above.
    // A relaxed level sees only a subset of the obstacles (still necessary).
    static Env relaxed;  // must outlive the planner; one case per process
    relaxed = P->env;
    bool relax = s.chance(64) && !relaxed.obs.empty();
    if (relax)
        relaxed.obs.resize(relaxed.obs.size() / 2);
    std::vector<ob::SpaceInformationPtr> levels;
    std::string shape;
    const PlanSpace &ps = P->ps;
    if (ps.kind == SP_SE2)
    {
        levels.push_back(baseLevel(2, ps, relax ? &relaxed : &P->env));
        shape = "R2<SE2";
    }
    else if (ps.kind == SP_SE3)
    {
        levels.push_back(baseLevel(3, ps, relax ? &relaxed : &P->env));
        shape = "R3<SE3";
    }
    else
    {
        if (ps.n == 2)
        {
            levels.push_back(baseLevel(2, ps, &relaxed));  // relaxation R2 < R2 (identical when nothing was dropped)
            shape = "R2<R2";
        }
        else
        {
            levels.push_back(baseLevel(2, ps, relax ? &relaxed : &P->env));
            shape = "R2";
            if (ps.n >= 4 && s.flag())
            {
                unsigned m = 3 + (unsigned)s.pick(ps.n - 3);
                levels.push_back(baseLevel(m, ps, &P->env));
                shape += "<R" + std::to_string(m);
            }
            shape += "<R" + std::to_string(ps.n);
        }
    }
    levels.push_back(P->si);
    std::string name = std::string(names[which]) + "[" + shape + "]";
    c.context(name);
    c.count("fixture:multilevel");
    c.count(std::string("planner:") + names[which]);
    c.count("levels:" + shape.substr(0, shape.find('<')) + (levels.size() == 3 ? "<..<" : "<") + (ps.kind == SP_RN ? "R^n" : ps.name()));
    c.note("planner=%s levels=%s relaxed-base=%d\n%s", names[which], shape.c_str(), (int)relax, P->str().c_str());
    ob::PlannerPtr pl;
    try
    {
        switch (which)
        {
            case 0:
                pl = std::make_shared<ompl::multilevel::QRRT>(levels);
                break;
            case 1:
                pl = std::make_shared<ompl::multilevel::QRRTStar>(levels);
                break;
            case 2:
                pl = std::make_shared<ompl::multilevel::QMP>(levels);
                break;
            default:
                pl = std::make_shared<ompl::multilevel::QMPStar>(levels);
        }
    }
    catch (const ompl::Exception &e)
    {
        c.count("outcome:sequence-rejected-by-exception");
        c.note("constructor: %s\n", e.what());
        return;
    }
    static const double scale[] = {1, 0.5, 0.5, 0.1};
    runHistory(s, c, names[which], std::string("/") + names[which] + "[levels]", *P, pl, scale[which], false, false);
}

// ---------------------------------------------------------------------------------------------------------------------------------
// fixture 2: VFRRT on R^n with a generated smooth vector field
static void fixtureVFRRT(vf::Src &s, vf::Ctx &c)
{
    ProblemOpts o;
    o.forceKind = SP_RN;
    std::shared_ptr<Problem> P;
    try
    {
        P = genProblem(s, o);
    }
    catch (const ompl::Exception &e)
    {
        throw vf::Skip{std::string("problem construction rejected: ") + e.what()};
    }
    const unsigned n = P->ps.n;
    int field = (int)s.weighted({3, 3, 2, 1});
    double gx = s.real(P->ps.lo, P->ps.hi), gy = s.real(P->ps.lo, P->ps.hi), mag = s.logreal(0.05, 20);
    auto vfield = [n, field, gx, gy, mag](const ob::State *st)
    {
        auto *v = st->as<ob::RealVectorStateSpace::StateType>()->values;
        Eigen::VectorXd f = Eigen::VectorXd::Zero(n);
        switch (field)
        {
            case 0:  // constant drift
                f[0] = mag;
                f[1] = -0.5 * mag;
                break;
            case 1:  // sink at (gx, gy)
                f[0] = mag * (gx - v[0]);
                f[1] = mag * (gy - v[1]);
                break;
            case 2:  // rotation about (gx, gy)
                f[0] = -mag * (v[1] - gy);
                f[1] = mag * (v[0] - gx);
                break;
            default:  // no field
                break;
        }
        return f;
    };
    double exploration = s.real(0.01, 1.0), lambda = s.logreal(0.01, 50);
    unsigned freq = 1 + (unsigned)s.u(0, 200);
    auto pl = std::make_shared<og::VFRRT>(P->si, vfield, exploration, lambda, freq);
    if (s.flag())
        pl->setRange(s.logreal(0.05, 4));
    if (s.flag())
        pl->setGoalBias(s.real(0.01, 0.5));
    c.context("VFRRT");
    c.count("fixture:VFRRT");
    c.count("planner:VFRRT");
    c.note("planner=VFRRT field=%d centre=(%.3g,%.3g) magnitude=%.3g exploration=%.3g lambda=%.3g update=%u range=%.4g\n%s", field, gx, gy, mag, exploration, lambda, freq,
           pl->getRange(), P->str().c_str());
    runHistory(s, c, "VFRRT", "/VFRRT", *P, pl, 1, true, false);
}

// ---------------------------------------------------------------------------------------------------------------------------------
// fixture 3: TSRRT on R^n, task space = (x, y)
struct XYTask : og::TaskSpaceConfig
{
    const PlanSpace *ps;
    ob::SpaceInformationPtr si;
    mutable ompl::RNG rng;
    bool liftFailsSometimes = false;
    int getDimension() const override
    {
        return 2;
    }
    void project(const ob::State *st, Eigen::Ref<Eigen::VectorXd> p) const override
    {
        double x, y;
        ps->xy(st, x, y);
        p[0] = x;
        p[1] = y;
    }
    void sample(Eigen::Ref<Eigen::VectorXd> p) const override
    {
        p[0] = rng.uniformReal(ps->lo, ps->hi);
        p[1] = rng.uniformReal(ps->lo, ps->hi);
    }
    bool lift(const Eigen::Ref<Eigen::VectorXd> &p, const ob::State *seed, ob::State *st) const override
    {
        if (liftFailsSometimes && rng.uniform01() < 0.3)
            return false;
        si->copyState(st, seed);
        auto *v = st->as<ob::RealVectorStateSpace::StateType>()->values;
        v[0] = p[0];
        v[1] = p[1];
        return true;
    }
};
static void fixtureTSRRT(vf::Src &s, vf::Ctx &c)
{
    ProblemOpts o;
    o.forceKind = SP_RN;
    std::shared_ptr<Problem> P;
    try
    {
        P = genProblem(s, o);
    }
    catch (const ompl::Exception &e)
    {
        throw vf::Skip{std::string("problem construction rejected: ") + e.what()};
    }
    auto task = std::make_shared<XYTask>();
    task->ps = &P->ps;
    task->si = P->si;
    task->liftFailsSometimes = s.chance(64);
    auto pl = std::make_shared<og::TSRRT>(P->si, task);
    if (s.flag())
        pl->setRange(s.logreal(0.05, 6));
    if (s.flag())
        pl->setGoalBias(s.real(0.01, 0.5));
    c.context("TSRRT");
    c.count("fixture:TSRRT");
    c.count("planner:TSRRT");
    c.note("planner=TSRRT range=%.4g lift-may-fail=%d\n%s", pl->getRange(), (int)task->liftFailsSometimes, P->str().c_str());
    runHistory(s, c, "TSRRT", "/TSRRT", *P, pl, 1, true, false);
}

// ---------------------------------------------------------------------------------------------------------------------------------
// fixture 4: STRRTstar on R^2 x time
struct STWorld
{
    double lo = 0, hi = 10, vMax = 1, tMax = 0;  // tMax == 0: unbounded time
    Env env;                                      // static obstacles
    bool moving = false;
    double mx = 0, my = 0, mvx = 0, mvy = 0, mr = 0;  // a ball moving with constant velocity
    double gx = 0, gy = 0, thr = 0.1;
    static void get(const ob::State *st, double &x, double &y, double &t)
    {
        auto *cs = st->as<ob::CompoundState>();
        x = cs->as<ob::RealVectorStateSpace::StateType>(0)->values[0];
        y = cs->as<ob::RealVectorStateSpace::StateType>(0)->values[1];
        t = cs->as<ob::TimeStateSpace::StateType>(1)->position;
    }
    bool valid(double x, double y, double t) const
    {
        if (!(t >= 0) || !(x >= lo && x <= hi && y >= lo && y <= hi))
            return false;
        if (!env.valid(x, y))
            return false;
        if (moving && std::hypot(x - (mx + mvx * t), y - (my + mvy * t)) <= mr)
            return false;
        return true;
    }
    // the user's motion rule (the planner gets it as its MotionValidator; the oracle applies the same rule with this code):
    // end state valid, strictly forward in time, speed limit respected, and every point at spatial spacing <= 0.05 / time spacing <= 0.05 valid
    bool motion(const ob::State *a, const ob::State *b) const
    {
        double x0, y0, t0, x1, y1, t1;
        get(a, x0, y0, t0);
        get(b, x1, y1, t1);
        if (!valid(x1, y1, t1))
            return false;
        double dt = t1 - t0, ds = std::hypot(x1 - x0, y1 - y0);
        if (!(dt > 0) || !(ds / dt <= vMax * (1 + 1e-9) + 1e-12))
            return false;
        int n = (int)std::ceil(std::max(ds, dt) / 0.05);
        n = std::min(std::max(n, 1), 100000);
        for (int k = 1; k < n; ++k)
        {
            double u = (double)k / n;
            if (!valid(x0 + u * (x1 - x0), y0 + u * (y1 - y0), t0 + u * dt))
                return false;
        }
        return true;
    }
};
struct STChecker : ob::StateValidityChecker
{
    const STWorld *w;
    STChecker(const ob::SpaceInformationPtr &si, const STWorld *ww) : ob::StateValidityChecker(si), w(ww)
    {
    }
    bool isValid(const ob::State *st) const override
    {
        double x, y, t;
        STWorld::get(st, x, y, t);
        return w->valid(x, y, t);
    }
};
struct STMotion : ob::MotionValidator
{
    const STWorld *w;
    STMotion(const ob::SpaceInformationPtr &si, const STWorld *ww) : ob::MotionValidator(si), w(ww)
    {
    }
    bool checkMotion(const ob::State *a, const ob::State *b) const override
    {
        bool r = w->motion(a, b);
        (r ? valid_ : invalid_)++;
        return r;
    }
    bool checkMotion(const ob::State *, const ob::State *, std::pair<ob::State *, double> &) const override
    {
        throw ompl::Exception("STMotion", "last-valid form not provided (as in the library's own space-time demo)");
    }
};
// goal = a position, whatever the time (the planner assigns arrival times to sampled goal states itself)
struct STGoal : ob::GoalSampleableRegion
{
    const STWorld *w;
    STGoal(const ob::SpaceInformationPtr &si, const STWorld *ww) : ob::GoalSampleableRegion(si), w(ww)
    {
        setThreshold(ww->thr);
    }
    double distanceGoal(const ob::State *st) const override
    {
        double x, y, t;
        STWorld::get(st, x, y, t);
        return std::hypot(x - w->gx, y - w->gy);
    }
    void sampleGoal(ob::State *st) const override
    {
        auto *cs = st->as<ob::CompoundState>();
        cs->as<ob::RealVectorStateSpace::StateType>(0)->values[0] = w->gx;
        cs->as<ob::RealVectorStateSpace::StateType>(0)->values[1] = w->gy;
        cs->as<ob::TimeStateSpace::StateType>(1)->position = 0;
    }
    unsigned int maxSampleCount() const override
    {
        return 1;
    }
};
static void fixtureSTRRT(vf::Src &s, vf::Ctx &c)
{
    static STWorld W;  // one case per process; must outlive everything that points to it
    W = STWorld();
    W.vMax = s.logreal(0.2, 3);
    bool bounded = s.weighted({2, 3}) == 1;
    PlanSpace ps;  // only for genEnv's box
    W.env = genEnv(s, ps);
    double sx = s.real(0.3, 9.7), sy = s.real(0.3, 9.7);
    W.gx = s.real(0.3, 9.7);
    W.gy = s.real(0.3, 9.7);
    static const double thr[] = {0.1, 1e-3, 0.5};
    W.thr = thr[s.weighted({4, 2, 2})];
    int scenario = (int)s.weighted({12, 2, 2});  // 0 normal, 1 start invalid, 2 goal invalid
    if (scenario != 1)
        clearAround(W.env, sx, sy, 0.25);
    if (scenario != 2)
        clearAround(W.env, W.gx, W.gy, 0.25);
    auto cover = [&](double x, double y)
    {
        Obstacle o{};
        o.ball = true;
        o.cx = x;
        o.cy = y;
        o.r = 0.45;
        W.env.obs.push_back(o);
    };
    if (scenario == 1 && std::hypot(sx - W.gx, sy - W.gy) > 0.8)
        cover(sx, sy);
    if (scenario == 2 && std::hypot(sx - W.gx, sy - W.gy) > 0.8)
        cover(W.gx, W.gy);
    W.moving = s.flag();
    if (W.moving)
    {
        // a ball crossing the straight start-goal line around the time the robot would get there
        double d = std::hypot(W.gx - sx, W.gy - sy), tm = 0.5 * d / W.vMax;
        double cx = 0.5 * (sx + W.gx), cy = 0.5 * (sy + W.gy), ang = s.real(0, 2 * PI), sp = s.real(0, 1.5) * W.vMax;
        W.mvx = sp * std::cos(ang);
        W.mvy = sp * std::sin(ang);
        W.mx = cx - W.mvx * tm;
        W.my = cy - W.mvy * tm;
        W.mr = s.real(0.3, 1.2);
        // the start must be free at t = 0
        if (std::hypot(sx - W.mx, sy - W.my) <= W.mr + 0.05)
            W.moving = false;
    }
    double dStraight = std::hypot(W.gx - sx, W.gy - sy);
    W.tMax = bounded ? (dStraight / W.vMax) * s.real(0.6, 6) + 0.5 : 0;
    auto r2 = std::make_shared<ob::RealVectorStateSpace>(2);
    r2->setBounds(W.lo, W.hi);
    double timeWeight = s.flag() ? 0.5 : s.real(0.05, 0.95);
    auto space = std::make_shared<ob::SpaceTimeStateSpace>(r2, W.vMax, timeWeight);
    if (bounded)
        space->setTimeBounds(0.0, W.tMax);
    auto si = std::make_shared<ob::SpaceInformation>(space);
    si->setStateValidityChecker(std::make_shared<STChecker>(si, &W));
    si->setMotionValidator(std::make_shared<STMotion>(si, &W));
    si->setup();
    auto pdef = std::make_shared<ob::ProblemDefinition>(si);
    ob::ScopedState<> start(space);
    start[0] = sx;
    start[1] = sy;
    start[2] = 0;
    pdef->addStartState(start);
    pdef->setGoal(std::make_shared<STGoal>(si, &W));
    const bool startOk = W.valid(sx, sy, 0), goalOkStatic = W.env.valid(W.gx, W.gy);
    unsigned seed = 1 + (unsigned)s.u(0, 1000000);
    ompl::RNG::setSeed(seed);
    auto pl = std::make_shared<og::STRRTstar>(si);
    pl->setRange(s.flag() ? W.vMax : s.logreal(0.1, 5));
    if (s.flag())
        pl->setOptimumApproxFactor(s.real(0.05, 1.0));
    if (s.flag())
        pl->setSampleUniformForUnboundedTime(s.flag());
    if (s.flag())
        pl->setRewiringToOff();
    else if (s.flag())
        pl->setRewiringToRadius();
    if (s.flag())
        pl->setBatchSize(4 + (int)s.u(0, 200));
    if (s.flag())
        pl->setTimeBoundFactorIncrease(s.real(1.2, 3));
    if (s.flag())
        pl->setInitialTimeBoundFactor(s.real(1.1, 4));
    c.context("STRRTstar");
    c.count("fixture:STRRTstar");
    c.count("planner:STRRTstar");
    c.count(bounded ? "time:bounded" : "time:unbounded");
    c.note("planner=STRRTstar seed=%u vMax=%.4g tMax=%.4g timeWeight=%.3g start=(%.4g,%.4g) goal=(%.4g,%.4g) thr=%.3g scenario=%d moving=%d[(%.3g,%.3g)+t(%.3g,%.3g) r=%.3g] env: %s\n",
           seed, W.vMax, W.tMax, timeWeight, sx, sy, W.gx, W.gy, W.thr, scenario, (int)W.moving, W.mx, W.my, W.mvx, W.mvy, W.mr, W.env.str().c_str());
    const std::string pkey = "/STRRTstar";
    int steps = 1 + (int)s.weighted({5, 3, 2});
    bool first = true;
    for (int i = 0; i < steps; ++i)
    {
        bool doClear = i > 0 && s.flag();
        double b = s.weighted({1, 8}) == 0 ? 0 : std::exp(s.real(0, std::log(4000.0)));
        long budget = (long)b;
        CountPTC ptc(&c);
        ptc.limit = budget;
        ob::PlannerStatus st = ob::PlannerStatus::UNKNOWN;
        if (doClear)
        {
            pl->clear();
            pdef->clearSolutionPaths();
            first = true;
            c.count("history:clear+solve");
        }
        else if (i > 0)
            c.count("history:continued-solve");
        size_t before = pdef->getSolutionCount();
        c.note("step %d: %ssolve(budget %ld)\n", i, doClear ? "clear + " : "", budget);
        try
        {
            if (i == 0)
            {
                pl->setProblemDefinition(pdef);
                pl->setup();
            }
            st = pl->solve(ptc.make());
        }
        catch (const ompl::Exception &e)
        {
            c.note("exception: %s\n", e.what());
            VCHECK(c, pdef->getSolutionCount() == before, KP "/exception-after-solution" + pkey, "STRRTstar threw '%s' out of solve() after having reported a solution", e.what());
            c.count("outcome:clean-rejection-by-exception");
            return;
        }
        size_t nsol = pdef->getSolutionCount();
        c.note("status=%s solutions=%zu\n", statusName(st), nsol);
        c.count(std::string("outcome:") + statusName(st));
        const bool solved = st == ob::PlannerStatus::EXACT_SOLUTION || st == ob::PlannerStatus::APPROXIMATE_SOLUTION;
        if (!solved)
        {
            VCHECK(c, nsol == before, KP "/non-solution-status-with-path" + pkey, "STRRTstar returned %s but added %zu solution path(s)", statusName(st), nsol - before);
            if (st == ob::PlannerStatus::INVALID_START && first)
                VCHECK(c, !startOk, KP "/untruthful-INVALID_START" + pkey, "STRRTstar returned INVALID_START although the start state is valid");
            if (st == ob::PlannerStatus::INVALID_GOAL)
                VCHECK(c, !goalOkStatic || W.moving || bounded, KP "/untruthful-INVALID_GOAL" + pkey,
                       "STRRTstar returned INVALID_GOAL although the goal position is free at every time and time is unbounded");
            VCHECK(c, st != ob::PlannerStatus::UNRECOGNIZED_GOAL_TYPE, KP "/untruthful-UNRECOGNIZED_GOAL_TYPE" + pkey, "STRRTstar refused a sampleable goal region");
            first = false;
            if (scenario != 0)
                c.nontrivial = true;
            continue;
        }
        VCHECK(c, nsol > 0, KP "/solution-status-without-path" + pkey, "STRRTstar returned %s but the problem definition holds no solution path", statusName(st));
        auto *pg = dynamic_cast<og::PathGeometric *>(pdef->getSolutionPath().get());
        VCHECK(c, pg && pg->getStateCount() > 0, KP "/empty-path" + pkey, "STRRTstar reported a solution with no states");
        const size_t n = pg->getStateCount();
        const bool approxFlag = pdef->hasApproximateSolution();
        double x, y, t;
        STWorld::get(pg->getState(0), x, y, t);
        VCHECK(c, startOk && x == sx && y == sy && t == 0, KP "/start" + pkey, "path starts at (%.6g,%.6g,t=%.6g), which is not the valid start state", x, y, t);
        for (size_t k = 0; k < n; ++k)
        {
            STWorld::get(pg->getState(k), x, y, t);
            bool inb = x >= W.lo && x <= W.hi && y >= W.lo && y <= W.hi && t >= 0 && (!bounded || t <= W.tMax * (1 + 1e-12));
            VCHECK(c, inb, KP "/bounds" + pkey, "path state %zu (%.9g,%.9g,t=%.9g) is outside the space bounds (tMax %.9g)", k, x, y, t, W.tMax);
        }
        for (size_t k = 0; k + 1 < n; ++k)
            if (!W.motion(pg->getState(k), pg->getState(k + 1)))
            {
                double x1, y1, t1;
                STWorld::get(pg->getState(k), x, y, t);
                STWorld::get(pg->getState(k + 1), x1, y1, t1);
                std::ostringstream os;
                pg->printAsMatrix(os);
                c.note("reported path:\n%s", os.str().substr(0, 3000).c_str());
                c.fail(KP "/recheck" + pkey, vf::fmt("consecutive path states %zu (%.6g,%.6g,t=%.6g) -> (%.6g,%.6g,t=%.6g) do not pass the user's motion validity check again "
                                                      "(speed %.6g, limit %.6g)",
                                                      k, x, y, t, x1, y1, t1, std::hypot(x1 - x, y1 - y) / (t1 - t), W.vMax));
            }
        const ob::State *last = pg->getState(n - 1);
        double dg = pdef->getGoal()->as<ob::GoalRegion>()->distanceGoal(last);
        if (!approxFlag)
            VCHECK(c, dg < W.thr || dg == 0, KP "/exact-but-goal-not-reached" + pkey, "solution flagged exact but its last state is %.6g from the goal (threshold %.6g)", dg, W.thr);
        if (first)
        {
            if (st == ob::PlannerStatus::EXACT_SOLUTION)
                VCHECK(c, !approxFlag, KP "/exact-status-approximate-flag" + pkey, "EXACT_SOLUTION returned but the reported solution is flagged approximate");
            else
            {
                VCHECK(c, approxFlag, KP "/approximate-status-exact-flag" + pkey, "APPROXIMATE_SOLUTION returned but the reported solution is not flagged approximate");
                double diff = pdef->getSolutionDifference();
                VCHECK(c, std::fabs(diff - dg) <= 1e-9 * (1 + dg), KP "/approximate-difference-mismatch" + pkey,
                       "reported goal difference %.9g but the last path state is %.9g from the goal", diff, dg);
            }
        }
        first = false;
        if (n >= 3 || i > 0)
            c.nontrivial = true;
    }
}


// ---------------------------------------------------------------------------------------------------------------------------------
// fixture 5: LightningRetrieveRepair on a generated experience database
static void fixtureLightning(vf::Src &s, vf::Ctx &c)
{
    ProblemOpts o;
    static const int kinds[] = {SP_RN, SP_SE2, SP_SE3};
    o.forceKind = kinds[s.weighted({4, 3, 1})];
    o.singleStart = true;  // "Get a single start state TODO: more than one"
    std::shared_ptr<Problem> P;
    try
    {
        P = genProblem(s, o);
    }
    catch (const ompl::Exception &e)
    {
        throw vf::Skip{std::string("problem construction rejected: ") + e.what()};
    }
    const PlanSpace &ps = P->ps;
    auto db = std::make_shared<ompl::tools::LightningDB>(ps.space);
    int npaths = 1 + (int)s.pick(4);
    std::string desc;
    for (int k = 0; k < npaths; ++k)
    {
        og::PathGeometric ep(P->si);
        int nst = 2 + (int)s.pick(6);
        // experiences recorded in another environment: positions anywhere in the box (possibly inside today's obstacles); the first one
        // usually runs from near the start to near the goal, possibly reversed
        bool related = k == 0 && s.chance(200);
        bool reversed = related && s.flag();
        double sx, sy, gx, gy;
        ps.xy(P->starts[0], sx, sy);
        ps.xy(P->goals[0], gx, gy);
        desc += vf::fmt("  experience %d:", k);
        for (int i = 0; i < nst; ++i)
        {
            double x = s.real(ps.lo + 0.05, ps.hi - 0.05), y = s.real(ps.lo + 0.05, ps.hi - 0.05);
            if (related && (i == 0 || i == nst - 1))
            {
                bool atStart = (i == 0) != reversed;
                x = std::min(ps.hi, std::max(ps.lo, (atStart ? sx : gx) + s.real(-0.4, 0.4)));
                y = std::min(ps.hi, std::max(ps.lo, (atStart ? sy : gy) + s.real(-0.4, 0.4)));
            }
            ob::State *st = P->si->allocState();
            ps.makeState(s, st, x, y);
            ep.append(st);
            P->si->freeState(st);
            desc += vf::fmt(" (%.3g,%.3g)", x, y);
        }
        desc += "\n";
        double t;
        db->addPath(ep, t);
    }
    auto pl = std::make_shared<og::LightningRetrieveRepair>(P->si, db);
    int rp = (int)s.weighted({3, 2, 2});
    if (rp == 1)
        pl->setRepairPlanner(std::make_shared<og::RRT>(P->si));
    else if (rp == 2)
        pl->setRepairPlanner(std::make_shared<og::KPIECE1>(P->si));
    c.context("LightningRetrieveRepair");
    c.count("fixture:Lightning");
    c.count("planner:LightningRetrieveRepair");
    c.note("planner=LightningRetrieveRepair repair=%s experiences=%d\n%s%s", rp == 0 ? "default" : rp == 1 ? "RRT" : "KPIECE1", npaths, desc.c_str(), P->str().c_str());
    runHistory(s, c, "LightningRetrieveRepair", "/LightningRetrieveRepair", *P, pl, 2, false, true, true);
}

// ---------------------------------------------------------------------------------------------------------------------------------
// fixture 6: XXL with a one-layer grid decomposition of the workspace position
struct XYDecomp : og::XXLPositionDecomposition
{
    ob::SpaceInformationPtr si;
    const PlanSpace *ps;
    mutable ompl::RNG rng;
    mutable ob::StateSamplerPtr sampler;
    XYDecomp(const ob::RealVectorBounds &b, const std::vector<int> &slices, bool diag, const ob::SpaceInformationPtr &s, const PlanSpace *p)
      : og::XXLPositionDecomposition(b, slices, diag), si(s), ps(p)
    {
    }
    int numLayers() const override
    {
        return 1;
    }
    bool sampleFromRegion(int r, ob::State *st, const ob::State *seed = nullptr) const override
    {
        return sampleFromRegion(r, st, seed, 0);
    }
    bool sampleFromRegion(int r, ob::State *st, const ob::State *seed, int) const override
    {
        std::vector<int> cell;
        ridToGridCell(r, cell);
        double x = bounds_.low[0] + (cell[0] + rng.uniform01()) * cellSizes_[0], y = bounds_.low[1] + (cell[1] + rng.uniform01()) * cellSizes_[1];
        x = std::min(x, bounds_.high[0]);
        y = std::min(y, bounds_.high[1]);
        if (seed)
            si->copyState(st, seed);
        else
        {
            if (!sampler)
                sampler = si->allocStateSampler();
            sampler->sampleUniform(st);
        }
        if (ps->kind == SP_RN)
        {
            st->as<ob::RealVectorStateSpace::StateType>()->values[0] = x;
            st->as<ob::RealVectorStateSpace::StateType>()->values[1] = y;
        }
        else
            st->as<ob::SE2StateSpace::StateType>()->setXY(x, y);
        return true;
    }
    void project(const ob::State *st, std::vector<double> &coord, int = 0) const override
    {
        coord.resize(2);
        ps->xy(st, coord[0], coord[1]);
    }
    void project(const ob::State *st, std::vector<int> &layers) const override
    {
        std::vector<double> c;
        project(st, c, 0);
        layers.resize(1);
        layers[0] = coordToRegion(c);
    }
};
static void fixtureXXL(vf::Src &s, vf::Ctx &c)
{
    ProblemOpts o;
    o.forceKind = s.flag() ? SP_SE2 : SP_RN;
    std::shared_ptr<Problem> P;
    try
    {
        P = genProblem(s, o);
    }
    catch (const ompl::Exception &e)
    {
        throw vf::Skip{std::string("problem construction rejected: ") + e.what()};
    }
    ob::RealVectorBounds b(2);
    b.setLow(P->ps.lo);
    b.setHigh(P->ps.hi);
    std::vector<int> slices{2 + (int)s.pick(9), 2 + (int)s.pick(9)};
    bool diag = s.flag();
    auto dec = std::make_shared<XYDecomp>(b, slices, diag, P->si, &P->ps);
    auto pl = std::make_shared<og::XXL>(P->si, dec);
    if (s.flag())
        pl->setRandWalkRate(s.real(0, 1));
    c.context("XXL");
    c.count("fixture:XXL");
    c.count("planner:XXL");
    c.note("planner=XXL grid=%dx%d diagonal=%d\n%s", slices[0], slices[1], (int)diag, P->str().c_str());
    runHistory(s, c, "XXL", "/XXL", *P, pl, 1, false, true);
}

void vf::run_case(Src &s, Ctx &c)
{
    int fx = (int)s.weighted({10, 4, 4, 8, 4, 2});  // sums to 32

    if (fx != 3)
    {
        unsigned seed = 1 + (unsigned)s.u(0, 1000000);
        ompl::RNG::setSeed(seed);
        c.note("seed=%u ", seed);
    }
    switch (fx)
    {
        case 0:
            fixtureMultilevel(s, c);
            break;
        case 1:
            fixtureVFRRT(s, c);
            break;
        case 2:
            fixtureTSRRT(s, c);
            break;
        case 3:
            fixtureSTRRT(s, c);
            break;
        case 4:
            fixtureLightning(s, c);
            break;
        default:
            fixtureXXL(s, c);
    }
}

#include "../core/runner.h"
