// C05 — a motion is valid exactly when every resolution step along it is valid.
#include "../gen/spaces.h"
#include "ompl/base/DiscreteMotionValidator.h"
#include "ompl/base/SpaceInformation.h"
#include "ompl/base/StateValidityChecker.h"
#include "ompl/util/Console.h"

namespace ob = ompl::base;
using namespace gen;

#define VF_HAS_PROCESS_INIT
void vf::process_init()
{
    ompl::msg::setLogLevel(ompl::msg::LOG_NONE);
}

vf::Config vf::config()
{
    Config c;
    c.property = "C05";
    c.maxLen = 500;
    c.batch = 1000;
    return c;
}

namespace
{
    // records every queried state; validity = "serialized image is not in the invalid set"
    struct Recorder : ob::StateValidityChecker
    {
        ob::StateSpacePtr sp;
        std::set<std::string> invalid;
        mutable std::vector<std::string> queries;
        Recorder(const ob::SpaceInformationPtr &si) : ob::StateValidityChecker(si), sp(si->getStateSpace())
        {
        }
        bool isValid(const ob::State *st) const override
        {
            std::string img = serialImage(sp, st);
            queries.push_back(img);
            return !invalid.count(img);
        }
    };
}  // namespace

void vf::run_case(Src &s, Ctx &c)
{
    SpaceOpts o;
    o.ctx = &c;
    Desc d = genSpace(s, o);
    double frac = s.flag() ? 0.01 : s.logreal(0.002, 0.2);
    unsigned factor = (unsigned)s.in(1, 3);
    d.space->setLongestValidSegmentFraction(frac);
    d.space->setValidSegmentCountFactor(factor);
    auto si = std::make_shared<ob::SpaceInformation>(d.space);
    auto rec = std::make_shared<Recorder>(si);
    si->setStateValidityChecker(rec);
    int mvKind = 0;  // 0 default discrete, 1 Dubins, 2 Reeds-Shepp
    if (d.kind == DUBINS && s.chance(192))
    {
        si->setMotionValidator(std::make_shared<ob::DubinsMotionValidator>(si));
        mvKind = 1;
    }
    else if (d.kind == REEDSSHEPP && s.chance(192))
    {
        si->setMotionValidator(std::make_shared<ob::ReedsSheppMotionValidator>(si));
        mvKind = 2;
    }
    else if (d.kind == DUBINS || d.kind == REEDSSHEPP)
        si->setMotionValidator(std::make_shared<ob::DiscreteMotionValidator>(si));
    try
    {
        si->setup();
    }
    catch (const ompl::Exception &)
    {
        c.count("space-setup-rejected");
        throw Skip{"setup rejected"};
    }
    auto &sp = d.space;
    StateHolder h(sp);
    ob::State *s1 = h.alloc(), *s2 = h.alloc(), *tmp = h.alloc(), *lv = h.alloc();
    genStateInto(s, d, s1);
    const char *rel = genRelatedInto(s, d, s1, s2);
    if (!(sp->satisfiesBounds(s1) && sp->satisfiesBounds(s2)))
        throw Skip{"generator produced an out-of-bounds state"};
    // SpaceInformation::setup() installs the Dubins / Reeds-Shepp validator by default for those spaces
    if (dynamic_cast<ob::DubinsMotionValidator *>(si->getMotionValidator().get()))
        mvKind = 1;
    else if (dynamic_cast<ob::ReedsSheppMotionValidator *>(si->getMotionValidator().get()))
        mvKind = 2;
    else
        mvKind = 0;
    const char *mvn[] = {"discrete", "Dubins", "ReedsShepp"};
    const std::string fam = mvn[mvKind];
    c.count(std::string("validator:") + mvn[mvKind]);
    c.count(std::string("space:") + kindName(d.kind));
    c.count(std::string("pair:") + rel);

    // reference subdivision points P_1..P_n (P_n = s2), harness-owned loop
    const unsigned n = sp->validSegmentCount(s1, s2);
    std::vector<std::string> P(n + 1);
    std::vector<bool> inb(n + 1, true);
    for (unsigned k = 1; k + 1 <= n; ++k)
    {
        sp->interpolate(s1, s2, (double)k / (double)n, tmp);
        P[k] = serialImage(sp, tmp);
        inb[k] = true;  // SpaceInformation::isValid() is the checker alone: bounds are not part of the motion check
    }
    const std::string img1 = serialImage(sp, s1), img2 = serialImage(sp, s2);
    if (n >= 1)
        P[n] = img2;
    // choose the invalid index set so that the first invalid index is spread over 1..n
    std::set<unsigned> F;
    size_t pm = s.weighted({3, 5, 2, 2});
    unsigned top = std::max(1u, n);
    if (pm == 1)
        F.insert(1 + (unsigned)s.u(0, top - 1));
    else if (pm == 2)
    {
        int cnt = s.in(2, 5);
        for (int i = 0; i < cnt; ++i)
            F.insert(1 + (unsigned)s.u(0, top - 1));
    }
    else if (pm == 3)
        F.insert(top);  // only the end state is invalid
    for (unsigned k : F)
    {
        const std::string &img = (n == 0 || k >= n) ? img2 : P[k];
        if (img != img1)  // s1 is valid by precondition
            rec->invalid.insert(img);
    }
    auto validAt = [&](unsigned k)  // k in 1..n; k == n means s2
    {
        const std::string &img = k >= n ? img2 : P[k];
        bool in = k >= n ? true : inb[k];
        return in && !rec->invalid.count(img);
    };
    unsigned firstInvalid = 0;  // 0 = none
    for (unsigned k = 1; k + 1 <= n && !firstInvalid; ++k)
        if (!validAt(k))
            firstInvalid = k;
    bool s2valid = !rec->invalid.count(img2);
    if (!firstInvalid && !s2valid)
        firstInvalid = std::max(1u, n);
    const bool expected = firstInvalid == 0;
    c.note("%s validator=%s frac=%.4g factor=%u n=%u\n s1=%s\n s2=%s (%s)\n invalid indices:", d.name().c_str(), mvn[mvKind], frac, factor, n,
           show(d, s1).c_str(), show(d, s2).c_str(), rel);
    for (unsigned k : F)
        c.note(" %u", k);
    c.note(" -> first invalid %u\n", firstInvalid);

    auto mv = si->getMotionValidator();
    // --- two-argument (bisection) overload
    {
        unsigned v0 = mv->getValidMotionCount(), i0 = mv->getInvalidMotionCount();
        rec->queries.clear();
        bool got = si->checkMotion(s1, s2);
        VCHECK(c, got == expected, "C05/verdict/" + fam, "%s: checkMotion(s1,s2) = %d, reference (s2 and all k/n points valid) = %d; n=%u first invalid index %u",
               d.name().c_str(), (int)got, (int)expected, n, firstInvalid);
        // queried states: only subdivision points / s2, each index at most once, all of them on success
        std::multiset<std::string> allowed;
        for (unsigned k = 1; k + 1 <= n; ++k)
            if (inb[k])
                allowed.insert(P[k]);  // out-of-bounds points are rejected by SpaceInformation::isValid before the checker is asked
        allowed.insert(img2);
        std::multiset<std::string> left = allowed;
        for (auto &q : rec->queries)
        {
            auto it = left.find(q);
            if (it == left.end())
            {
                sp->deserialize(tmp, q.data());
                std::string qs = show(d, tmp);
                double bestT = -1, bestD = 1e300;
                ob::State *t2 = h.alloc();
                for (unsigned k = 0; k <= n && n > 0; ++k)
                {
                    sp->interpolate(s1, s2, (double)k / (double)n, t2);
                    LeafDiff ld = leafDiff(d, tmp, t2);
                    double dd = std::max({ld.rv, ld.ang, ld.quat, ld.time, (double)ld.disc});
                    if (dd < bestD)
                    {
                        bestD = dd;
                        bestT = k;
                    }
                }
                c.fail("C05/query-set/" + fam,
                       vf::fmt("%s: checkMotion(s1,s2) queried %s, which is not an unvisited k/n subdivision point (n=%u, %zu queries; nearest index %g, leaf diff %.3g, %s)",
                               d.name().c_str(), qs.c_str(), n, rec->queries.size(), bestT, bestD, allowed.count(q) ? "queried twice" : "not a subdivision point"));
            }
            left.erase(it);
        }
        if (got)
            VCHECK(c, left.empty(), "C05/query-incomplete/" + fam, "%s: checkMotion(s1,s2) answered valid after checking only %zu of %zu points", d.name().c_str(),
                   rec->queries.size(), allowed.size());
        unsigned dv = mv->getValidMotionCount() - v0, di = mv->getInvalidMotionCount() - i0;
        VCHECK(c, dv == (got ? 1u : 0u) && di == (got ? 0u : 1u), "C05/counters/" + fam,
               "%s: checkMotion(s1,s2) returned %d but counters advanced valid+%u invalid+%u", d.name().c_str(), (int)got, dv, di);
    }
    // --- lastValid overload (plain, and with the output aliasing s2 / s1 as callers do)
    int aliasMode = (int)s.weighted({4, 2, 1});
    {
        ob::State *a1 = s1, *a2 = s2;
        ob::State *c1 = h.alloc(), *c2 = h.alloc();
        sp->copyState(c1, s1);
        sp->copyState(c2, s2);
        std::pair<ob::State *, double> last;
        const double sentinel = -12345.678;
        last.second = sentinel;
        if (aliasMode == 0)
            last.first = s.chance(32) ? nullptr : lv;
        else if (aliasMode == 1)
        {
            a2 = c2;
            last.first = c2;
        }
        else
        {
            a1 = c1;
            last.first = c1;
        }
        if (last.first == lv)
            genStateInto(s, d, lv);
        std::string lvBefore = last.first ? serialImage(sp, last.first) : "";
        unsigned v0 = mv->getValidMotionCount(), i0 = mv->getInvalidMotionCount();
        bool got = si->checkMotion(a1, a2, last);
        VCHECK(c, got == expected, "C05/verdict-lastvalid/" + fam, "%s: checkMotion(s1,s2,lastValid) = %d, reference = %d; n=%u first invalid %u", d.name().c_str(),
               (int)got, (int)expected, n, firstInvalid);
        unsigned dv = mv->getValidMotionCount() - v0, di = mv->getInvalidMotionCount() - i0;
        VCHECK(c, dv == (got ? 1u : 0u) && di == (got ? 0u : 1u), "C05/counters-lastvalid/" + fam,
               "%s: checkMotion(s1,s2,lastValid) returned %d but counters advanced valid+%u invalid+%u", d.name().c_str(), (int)got, dv, di);
        if (got)
        {
            VCHECK(c, last.second == sentinel, "C05/lastvalid-touched", "%s: motion valid but lastValid.second was overwritten with %.17g", d.name().c_str(),
                   last.second);
            if (last.first)
                VCHECK(c, serialImage(sp, last.first) == lvBefore, "C05/lastvalid-touched", "%s: motion valid but the lastValid state was modified", d.name().c_str());
        }
        else
        {
            double t = last.second;
            if (!(t >= 0 && t < 1))
                c.failOrKnown(n == 0 ? "C05/lastvalid-fraction(zero-segment-count)" : "C05/lastvalid-fraction/" + fam,
                              vf::fmt("%s: invalid motion reports last-valid fraction %.17g outside [0,1) (n=%u, first invalid index %u)", d.name().c_str(), t, n,
                                      firstInvalid));
            else
            {
                double want = n > 0 ? (double)(firstInvalid - 1) / (double)n : 0.0;
                VCHECK(c, t == want, "C05/lastvalid-fraction/" + fam, "%s: last-valid fraction %.17g, expected (j-1)/n = %.17g (j=%u, n=%u)", d.name().c_str(), t,
                       want, firstInvalid, n);
                if (last.first)
                {
                    sp->interpolate(s1, s2, t, tmp);
                    VCHECK(c, serialImage(sp, last.first) == serialImage(sp, tmp), "C05/lastvalid-state/" + fam,
                           "%s: last-valid state %s is not interpolate(s1,s2,%.17g) = %s (output %s)", d.name().c_str(), show(d, last.first).c_str(), t,
                           show(d, tmp).c_str(), aliasMode == 0 ? "separate" : aliasMode == 1 ? "aliases s2" : "aliases s1");
                }
            }
        }
    }
    // --- the explicit state-list helper
    {
        rec->queries.clear();
        unsigned count = (unsigned)s.in(0, 40);
        std::vector<ob::State *> list;
        std::vector<bool> lvValid;
        for (unsigned i = 0; i < count + (unsigned)s.in(0, 2); ++i)
        {
            ob::State *x = h.alloc();
            if (n >= 1 && s.flag())
                sp->interpolate(s1, s2, (double)s.u(0, n) / (double)n, x);
            else
                genStateInto(s, d, x);
            list.push_back(x);
            lvValid.push_back(!rec->invalid.count(serialImage(sp, x)));
        }
        unsigned refFirst = count;
        for (unsigned i = 0; i < count; ++i)
            if (!lvValid[i])
            {
                refFirst = i;
                break;
            }
        unsigned fi = 9999;
        bool g1 = si->checkMotion(list, count, fi);
        VCHECK(c, g1 == (refFirst == count), "C05/list-verdict", "checkMotion(states,%u,first) = %d, reference %d", count, (int)g1, (int)(refFirst == count));
        if (!g1)
            VCHECK(c, fi == refFirst, "C05/list-first-invalid", "checkMotion(states,%u,first) reports first invalid index %u, reference %u", count, fi, refFirst);
        bool g2 = si->checkMotion(list, count);
        VCHECK(c, g2 == (refFirst == count), "C05/list-verdict-bisect", "checkMotion(states,%u) = %d, reference %d", count, (int)g2, (int)(refFirst == count));
    }
    bool inside = false;
    for (unsigned k = 1; k + 1 <= n; ++k)
        if (!validAt(k))
            inside = true;
    c.count(expected ? "motion:valid" : inside ? "motion:invalid-inside" : "motion:invalid-at-end");
    c.nontrivial = n >= 3 && inside;
}

#include "../core/runner.h"
