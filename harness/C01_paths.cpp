// C01 — geometric planners only report solution paths that are real.
// One case per forked child: planner x space x environment x problem (normal or abnormal scenario) x parameters x seed x budget.
#include <sstream>
#include "../gen/planning.h"

namespace ob = ompl::base;
namespace og = ompl::geometric;
using namespace plan;

#ifdef VF_C19P
#define KP "C19/planner"
#include <sched.h>
#include <time.h>
#include <functional>
#include <thread>
#include "ompl/util/VerifHooks.h"
// Schedule perturbation at the library's OMPL_VERIF yield points (the lock sites of the threaded planners). The decision at each point
// comes from a per-thread generator seeded with the case seed and the thread's identity: the harness owns no global randomness, the
// scheduler's own nondeterminism remains (C19 samples schedules, it cannot enumerate them).
namespace
{
    std::atomic<unsigned> g_yieldMode{0};
    std::atomic<uint64_t> g_yieldSeed{1};
    std::atomic<uint64_t> g_yieldCount{0};
    void perturb(const char *)
    {
        thread_local uint64_t x = 0;
        if (x == 0)
            x = (g_yieldSeed.load() * 0x9e3779b97f4a7c15ull) ^ (std::hash<std::thread::id>()(std::this_thread::get_id()) | 1);
        x ^= x << 13;
        x ^= x >> 7;
        x ^= x << 17;
        g_yieldCount.fetch_add(1, std::memory_order_relaxed);
        const unsigned mode = g_yieldMode.load(std::memory_order_relaxed);
        const unsigned r = (unsigned)(x >> 33);
        if (mode == 1)
        {
            if (r & 1)
                sched_yield();
        }
        else if (mode == 2)
        {
            if ((r & 3) == 0)
            {
                timespec ts{0, (long)(1000 + (r >> 2) % 100000)};  // 1 .. 100 microseconds
                nanosleep(&ts, nullptr);
            }
        }
        else if (mode == 3)
        {
            sched_yield();
            if ((r & 63) == 0)
            {
                timespec ts{0, 1000000};  // a millisecond now and then: lets every other worker run ahead
                nanosleep(&ts, nullptr);
            }
        }
    }
}
#else
#define KP "C01"
#endif

#define VF_HAS_PROCESS_INIT
void vf::process_init()
{
    ompl::msg::setLogLevel(ompl::msg::LOG_NONE);
}

vf::Config vf::config()
{
    Config c;
#ifdef VF_C19P
    c.property = "C19";  // part 2 of C19: the internally threaded planners under the C01 oracle (ASan flavor), generated thread counts
#else
    c.property = "C01";
#endif
    c.maxLen = 900;
    c.batch = 1;  // fork per case: RNG::setSeed really precedes every generator, a hang or crash names exactly one case
    c.caseTimeout = 30;
    c.hardTimeout = 150;
    return c;
}

void vf::run_case(Src &s, Ctx &c)
{
    const auto &R = registry();
#ifdef VF_C19P
    std::vector<int> thr;
    for (size_t i = 0; i < R.size(); ++i)
        if (R[i].threaded)
            thr.push_back((int)i);
    const PlannerInfo &pi = R[thr[s.pick(thr.size())]];
    const unsigned nthreads = (unsigned)s.in(2, 6);
#else
    size_t pidx = s.pick(R.size());
#ifdef VF_C01P
    {
        // configuration companion: planners are drawn in proportion to what they let the caller configure - 1 + 3 per declared switch + 1 per
        // declared numeric parameter (counted once from each planner's ParamSet, skipping the parameters the harness sets itself)
        static const struct
        {
            const char *name;
            int sw, num;
        } K[] = {{"RRTstar", 10, 4}, {"InformedRRTstar", 3, 4}, {"SORRTstar", 3, 4}, {"RRTsharp", 4, 4}, {"RRTXstatic", 4, 5}, {"LBTRRT", 0, 1}, {"LazyLBTRRT", 0, 1},
                 {"TRRT", 0, 1}, {"BiTRRT", 0, 1}, {"KPIECE1", 0, 1}, {"BKPIECE1", 0, 1}, {"LBKPIECE1", 0, 1}, {"STRIDE", 1, 1}, {"PRM", 0, 1}, {"LazyPRM", 0, 1},
                 {"SPARS", 0, 4}, {"SPARStwo", 0, 4}, {"FMT", 4, 2}, {"BFMT", 6, 2}, {"BITstar", 8, 3}, {"ABITstar", 8, 6}, {"AITstar", 3, 3}, {"EITstar", 3, 3},
                 {"EIRMstar", 3, 4}, {"SST", 0, 2}, {"RLRT", 1, 0}, {"BiRLRT", 1, 1}, {"CForest", 1, 0}, {"AnytimePathShortening", 2, 1}};
        std::vector<int> w(R.size(), 1);
        int total = 0;
        for (size_t i = 0; i < R.size(); ++i)
        {
            for (auto &k : K)
                if (std::string(k.name) == R[i].name)
                    w[i] = 1 + 3 * k.sw + k.num;
            total += w[i];
        }
        int r = (int)s.u(0, (uint64_t)total - 1);
        for (pidx = 0; pidx + 1 < R.size() && r >= w[pidx]; ++pidx)
            r -= w[pidx];
    }
#endif
    // exploration aid (never set by ./check): sweep one planner, e.g. VF_FORCE_PLANNER=PDST ./check C01 --seed 5
    if (const char *fp = std::getenv("VF_FORCE_PLANNER"))
        if (findPlanner(fp) >= 0)
            pidx = (size_t)findPlanner(fp);
    const PlannerInfo &pi = R[pidx];
#endif
    c.context(pi.name);
    unsigned seed = 1 + (unsigned)s.u(0, 1000000);
    ompl::RNG::setSeed(seed);
    ProblemOpts o;
    o.allowCurves = pi.directedOk;
    o.singleStart = std::string(pi.name) == "LBTRRT" || std::string(pi.name) == "LazyLBTRRT";
    std::shared_ptr<Problem> P;
    try
    {
        P = genProblem(s, o);
    }
    catch (const ompl::Exception &e)
    {
        throw Skip{std::string("problem construction rejected: ") + e.what()};
    }
#ifdef VF_C01P
    // Configuration companion: a third of the normal single-goal problems get their goal walled in (valid, but unreachable): the planner
    // searches until the budget is spent and what it reports - TIMEOUT or an approximate solution - comes from a long search.
    if (P->scenario == SC_NORMAL && P->goals.size() == 1 && P->goalOk[0] && s.chance(96))
    {
        double gx, gy;
        P->ps.xy(P->goals[0], gx, gy);
        const double in = s.real(0.5, 0.9), th = s.real(0.25, 0.5), out = in + th;
        bool clash = false;
        for (auto *st : P->starts)
        {
            double x, y;
            P->ps.xy(st, x, y);
            if (std::fabs(x - gx) < out + 0.3 && std::fabs(y - gy) < out + 0.3)
                clash = true;
        }
        if (!clash)
        {
            auto box = [&](double x0, double y0, double x1, double y1)
            {
                Obstacle o{};
                o.ball = false;
                o.x0 = x0;
                o.y0 = y0;
                o.x1 = x1;
                o.y1 = y1;
                P->env.obs.push_back(o);
            };
            box(gx - out, gy - out, gx + out, gy - in);
            box(gx - out, gy + in, gx + out, gy + out);
            box(gx - out, gy - in, gx - in, gy + in);
            box(gx + in, gy - in, gx + out, gy + in);
            c.count("goal:walled-in");
        }
    }
#endif
    // evaluation budget: log-uniform, scaled per planner
    double b = s.weighted({1, 8}) == 0 ? 0 : std::exp(s.real(0, std::log(4000.0)));
    long budget = (long)(b * pi.budgetScale);
    ob::PlannerPtr pl = pi.make(P->si);
#ifdef VF_C19P
    if (auto *p = dynamic_cast<og::pRRT *>(pl.get()))
        p->setThreadCount(nthreads);
    if (auto *p = dynamic_cast<og::pSBL *>(pl.get()))
        p->setThreadCount(nthreads);
    if (auto *p = dynamic_cast<og::CForest *>(pl.get()))
        p->setNumThreads(nthreads);
    c.count("threads:" + std::to_string(nthreads));
#endif
    double range = s.weighted({3, 3}) == 0 ? 0 : s.logreal(0.2, 6);
    if (range > 0)
        setParamIfPresent(pl, "range", range);
    if (s.flag())
        setParamIfPresent(pl, "goal_bias", s.real(0.01, 0.5));
    std::string tuned;
    try
    {
#ifdef VF_C01P
        tuned = tuneParams(s, pl, 256, 128);  // every case is tuned, every declared switch / numeric parameter with probability 1/2
#else
        tuned = tuneParams(s, pl);
#endif
    }
    catch (const ompl::Exception &e)
    {
        throw Skip{std::string("parameter value rejected: ") + e.what()};
    }
    c.count(tuned.empty() ? "params:defaults" : "params:tuned");
    // decoded last, so that saved cases (which end before this byte) keep their meaning: a quarter of the cases get a budget from the top of
    // the range - the informed-tree planners only start their forward search after a batch of samples and a reverse search
#ifdef VF_C19P
    {
        // decoded last as well: how the workers are disturbed at the library's yield points
        unsigned mode = s.chance(170) ? 1 + (unsigned)s.pick(3) : 0;
        g_yieldSeed = seed;
        g_yieldMode = mode;
        ompl::verif::yieldHook().store(mode ? &perturb : nullptr);
        c.count("schedule:" + std::string(mode == 0 ? "undisturbed" : mode == 1 ? "yield-half" : mode == 2 ? "short-sleeps" : "yield-always+ms-sleeps"));
    }
#endif
#ifdef VF_C01P
    if (s.chance(150))
#else
    if (s.chance(100))
#endif
    {
        budget = std::max(budget, (long)(s.real(1000, 4000) * pi.budgetScale));
        c.count("budget:boosted");
    }
    c.note("planner=%s seed=%u budget=%ld range=%.4g%s%s\n%s", pi.name, seed, budget, range, tuned.empty() ? "" : " params:", tuned.c_str(), P->str().c_str());
    c.count(std::string("planner:") + pi.name);
    c.count(std::string("scenario:") + scenarioName(P->scenario));
    c.count(std::string("space:") + (P->ps.kind == SP_RN ? "R^n" : P->ps.name().substr(0, P->ps.name().find('('))));

    CountPTC ptc(&c);
    ptc.limit = budget;
    ob::PlannerStatus st = ob::PlannerStatus::UNKNOWN;
    bool rejected = false;
    std::string rejectWhy;
    try
    {
        pl->setProblemDefinition(P->pdef);
        pl->setup();
        st = pl->solve(ptc.make());
    }
    catch (const ompl::Exception &e)
    {
        rejected = true;
        rejectWhy = e.what();
    }
    // PDST re-derives the interior of a split motion by interpolating between the split points again; on Dubins that is a different
    // (known-finding) failure family from anything it does elsewhere, so the space family is part of its key
    // The same holds for the other planners that keep the valid part of a failed motion (KPIECE1, STRIDE, RLRT) or cut a validated motion
    // into pieces (the intermediate-state variants): the motion they store is interpolated afresh later, which presumes that a part of a
    // curve is the curve between its end points - the curve families break that (C14 prefix findings, Dubins discontinuity). Whether
    // the re-derived piece then shows as an out-of-bounds vertex, an invalid stretch or a failed re-check is one finding, one key.
    static const char *partial[] = {"PDST", "KPIECE1", "STRIDE", "RLRT", "RRT(intermediate)", "RRTConnect(intermediate)"};
    bool usesPartialMotions = false;
    for (auto *n : partial)
        if (std::string(pi.name) == n)
            usesPartialMotions = true;
    const std::string pkey = std::string("/") + pi.name +
                             (usesPartialMotions && P->ps.curveFamily() ? (P->ps.kind == SP_DUBINS ? "(Dubins)" : "(ReedsShepp)") : "");
    size_t nsol = P->pdef->getSolutionCount();
    if (rejected)
    {
        // an ompl::Exception for an unsupported configuration is a clean rejection as long as nothing was reported
        c.note("exception: %s\n", rejectWhy.c_str());
        if (nsol == 0)
        {
            c.count("outcome:clean-rejection-by-exception");
            c.nontrivial = P->scenario != SC_NORMAL;
            return;
        }
        // an exception that escapes solve() after a solution was reported is not a rejection; whatever was reported is still judged below
        c.failOrKnown(KP "/exception-after-solution" + pkey,
                      vf::fmt("%s threw '%s' out of solve() after having reported %zu solution(s)", pi.name, rejectWhy.c_str(), nsol));
        st = P->pdef->hasApproximateSolution() ? ob::PlannerStatus::APPROXIMATE_SOLUTION : ob::PlannerStatus::EXACT_SOLUTION;
    }
    c.note("status=%s solutions=%zu evaluations=%ld\n", statusName(st), nsol, (long)ptc.calls->load());
    c.count(std::string("outcome:") + statusName(st));
    const bool solved = st == ob::PlannerStatus::EXACT_SOLUTION || st == ob::PlannerStatus::APPROXIMATE_SOLUTION;
    // --- clause 1: status / problem-definition coherence
    if (!solved)
    {
        VCHECK(c, nsol == 0, KP "/non-solution-status-with-path" + pkey, "%s returned %s but added %zu solution path(s)", pi.name, statusName(st), nsol);
        bool anyStart = false, anyGoal = false;
        for (bool okk : P->startOk)
            anyStart |= okk;
        for (bool okk : P->goalOk)
            anyGoal |= okk;
        if (st == ob::PlannerStatus::INVALID_START)
            VCHECK(c, !anyStart, KP "/untruthful-INVALID_START" + pkey, "%s returned INVALID_START although a valid in-bounds start state exists", pi.name);
        if (st == ob::PlannerStatus::INVALID_GOAL)
            if (anyGoal && P->goalKind != 2)
                // one root cause for every planner that uses the non-waiting PlannerInputStates::nextGoal(): it gives up after the first
                // sampled goal state when that one is invalid
                c.failOrKnown(!P->goalOk[0] ? std::string(KP "/untruthful-INVALID_GOAL(first-goal-state-invalid)") : KP "/untruthful-INVALID_GOAL" + pkey,
                              vf::fmt("%s returned INVALID_GOAL although a valid, sampleable goal state exists", pi.name));
        if (st == ob::PlannerStatus::UNRECOGNIZED_GOAL_TYPE)
        {
            // pSBL accepts a GoalState only (pSBL.cpp: dynamic_cast<GoalState*>); every other planner accepts any sampleable goal
            bool truthful = P->goalKind == 2 || (std::string(pi.name) == "pSBL" && P->goalKind != 0);
            VCHECK(c, truthful, KP "/untruthful-UNRECOGNIZED_GOAL_TYPE" + pkey, "%s returned UNRECOGNIZED_GOAL_TYPE for a sampleable GoalState(s) goal it supports", pi.name);
        }
        VCHECK(c, st != ob::PlannerStatus::CRASH, KP "/status-CRASH" + pkey, "%s returned CRASH", pi.name);
        c.nontrivial = P->scenario != SC_NORMAL;
        return;
    }
    VCHECK(c, nsol > 0, KP "/solution-status-without-path" + pkey, "%s returned %s but the problem definition holds no solution path", pi.name, statusName(st));
    auto *pg = dynamic_cast<og::PathGeometric *>(P->pdef->getSolutionPath().get());
    VCHECK(c, pg != nullptr, KP "/not-geometric-path" + pkey, "solution path is not a PathGeometric");
    VCHECK(c, pg->getStateCount() > 0, KP "/empty-path" + pkey, "%s reported a solution with no states", pi.name);
    const ob::State *last = pg->getState(pg->getStateCount() - 1);
    const bool approxFlag = P->pdef->hasApproximateSolution();
    auto *goalRegion = dynamic_cast<ob::GoalRegion *>(P->pdef->getGoal().get());
    if (st == ob::PlannerStatus::EXACT_SOLUTION)
    {
        VCHECK(c, !approxFlag, KP "/exact-status-approximate-flag" + pkey, "%s returned EXACT_SOLUTION but the reported solution is flagged approximate", pi.name);
        double dg = goalRegion->distanceGoal(last);
        if (!(P->pdef->getGoal()->isSatisfied(last)))
            c.failOrKnown(KP "/exact-but-goal-not-reached" + pkey,
                          vf::fmt("%s returned EXACT_SOLUTION but the last path state is %.6g from the goal (threshold %.6g)", pi.name, dg, P->threshold));
    }
    else
    {
        VCHECK(c, approxFlag, KP "/approximate-status-exact-flag" + pkey, "%s returned APPROXIMATE_SOLUTION but the reported solution is not flagged approximate", pi.name);
        double diff = P->pdef->getSolutionDifference();
        double dg = goalRegion->distanceGoal(last);
        double tol = 1e-9 * (1 + dg) + (P->ps.kind == SP_SE3 ? 1e-4 : 0);
        if (!(std::fabs(diff - dg) <= tol))
            c.failOrKnown(KP "/approximate-difference-mismatch" + pkey,
                          vf::fmt("%s: reported goal difference %.9g but the last path state is %.9g from the goal", pi.name, diff, dg));
    }
    // --- clauses 2-4 on the reported path
    bool strict = pi.strictRecheck;
    // on the curve spaces only direction-aware planners run, and there a motion is not its own reverse: the re-check is forward only
    PathVerdict v = checkPath(*P, *pg, strict, !P->ps.curveFamily() && (pi.bidirectional || pi.optimizing || !pi.directedOk));
    c.stat("invalid-run/r", v.worstRun);
    if (!v.ok())
    {
        std::ostringstream os;
        pg->printAsMatrix(os);
        c.note("reported path (one state per line):\n%s", os.str().substr(0, 3000).c_str());
    }
    if (!v.ok() && usesPartialMotions && P->ps.curveFamily() && (v.key == "bounds" || v.key == "invalid-stretch" || v.key == "recheck"))
        v.key = "off-validated-curve";
    if (!v.ok())
        c.failOrKnown(KP "/" + v.key + pkey, vf::fmt("%s on %s: %s [%s, %zu states]", pi.name, P->ps.name().c_str(), v.msg.c_str(), statusName(st), pg->getStateCount()));
    bool forced = P->scenario != SC_NORMAL;
    bool hadToAvoid = !straightLineFree(*P);
    c.count(hadToAvoid ? "solution:straight-line-blocked" : "solution:straight-line-free");
    c.nontrivial = forced || hadToAvoid;
}

#include "../core/runner.h"
