// C10 — nearest-neighbour structures answer exactly like exhaustive search.
// Generator: histories of add / add(vector) / remove / clear / nearest / nearestK / nearestR / list over GNAT (both
// variants), Linear and SqrtApprox with generated tree parameters and point distributions; oracle: brute-force model.
#include "../core/verif.h"
#include "ompl/datastructures/NearestNeighborsGNAT.h"
#include "ompl/datastructures/NearestNeighborsGNATNoThreadSafety.h"
#include "ompl/datastructures/NearestNeighborsLinear.h"
#include "ompl/datastructures/NearestNeighborsSqrtApprox.h"
#include "ompl/util/Console.h"
#include "ompl/util/Exception.h"
#include "ompl/util/RandomNumbers.h"
#include <algorithm>
#include <memory>

namespace
{
    struct E
    {
        int id = -1;
        double x[3] = {0, 0, 0};
        bool operator==(const E &o) const
        {
            return id == o.id;
        }
        bool operator!=(const E &o) const
        {
            return id != o.id;
        }
    };
    std::ostream &operator<<(std::ostream &o, const E &e)
    {
        return o << e.id;
    }
    int g_metric = 0, g_dim = 2;
    double dist(const E &a, const E &b)
    {
        double r = 0;
        for (int i = 0; i < g_dim; ++i)
        {
            double d = std::fabs(a.x[i] - b.x[i]);
            if (g_metric == 0)
                r += d;
            else if (g_metric == 1)
                r += d * d;
            else
                r = std::max(r, d);
        }
        return g_metric == 1 ? std::sqrt(r) : r;
    }
}  // namespace

#define VF_HAS_PROCESS_INIT
void vf::process_init()
{
    ompl::msg::setLogLevel(ompl::msg::LOG_NONE);
}

vf::Config vf::config()
{
    Config c;
    c.property = "C10";
    c.maxLen = 700;
    c.batch = 2000;
    return c;
}

void vf::run_case(Src &s, Ctx &c)
{
    ompl::RNG::setSeed(1 + s.u8());  // GNAT draws its first pivot from an ompl::RNG: pin it per case
    g_metric = (int)s.pick(3);
    g_dim = s.in(1, 3);
    int kind = (int)s.weighted({5, 5, 2, 2});
    unsigned degree = 8, minDeg = 4, maxDeg = 12, leaf = 50, cache = 500;
    bool rebal = false;
    std::unique_ptr<ompl::NearestNeighbors<E>> nn;
    bool adjusted = false;
    if (kind <= 1)
    {
        if (s.chance(32))
        {
            // library defaults
        }
        else
        {
            degree = (unsigned)s.in(2, 8);
            minDeg = (unsigned)s.in(2, (int)degree);
            maxDeg = (unsigned)s.in((int)degree, 12);
            leaf = (unsigned)s.in(1, 8);
            cache = (unsigned)s.in(1, 16);
            rebal = s.flag();
            if (leaf < maxDeg && c.isKnown("C10/gnat/removed-cache-realloc"))
            {
                // known finding excluded by construction (counted)
                leaf = maxDeg;
                adjusted = true;
                c.knownHits["C10/gnat/removed-cache-realloc"]++;
            }
        }
        if (kind == 0)
            nn.reset(new ompl::NearestNeighborsGNAT<E>(degree, minDeg, maxDeg, leaf, cache, rebal));
        else
            nn.reset(new ompl::NearestNeighborsGNATNoThreadSafety<E>(degree, minDeg, maxDeg, leaf, cache, rebal));
    }
    else if (kind == 2)
        nn.reset(new ompl::NearestNeighborsLinear<E>());
    else
        nn.reset(new ompl::NearestNeighborsSqrtApprox<E>());
    nn->setDistanceFunction(dist);
    const bool exact = kind != 3;
    const char *kn[] = {"GNAT", "GNATNoThreadSafety", "Linear", "SqrtApprox"};
    int distr = (int)s.weighted({4, 3, 2, 2});
    c.note("%s(deg=%u,min=%u,max=%u,leaf=%u,cache=%u,rebal=%d) metric=%s dim=%d points=%s\n", kn[kind], degree, minDeg, maxDeg, leaf, cache,
           (int)rebal, g_metric == 0 ? "L1" : g_metric == 1 ? "L2" : "Linf", g_dim,
           distr == 0 ? "lattice4" : distr == 1 ? "lattice16" : distr == 2 ? "clusters" : "uniform");
    (void)adjusted;
    // L1/Linf on lattice points are computed without rounding, so the triangle inequality holds exactly and results are
    // compared bit for bit. Elsewhere the computed function is a metric only up to rounding: an element whose distance
    // ties with the radius / the k-th distance to within 1e-12 relative may legitimately be pruned or kept.
    #ifdef C10_STRICT
    const bool exactArith = true;
#else
    const bool exactArith = (distr <= 1) && g_metric != 1;
#endif
    auto close = [&](double a, double b) { return exactArith ? a == b : std::fabs(a - b) <= 1e-12 * (1 + std::fabs(a) + std::fabs(b)); };

    std::vector<E> live;  // brute-force model
    int nextId = 0;
    auto genPoint = [&](E &e)
    {
        for (int i = 0; i < g_dim; ++i)
        {
            if (distr == 0)
                e.x[i] = s.in(0, 3);
            else if (distr == 1)
                e.x[i] = s.in(0, 15);
            else if (distr == 2)
                e.x[i] = 1000.0 * s.in(0, 2) + s.real(-1, 1);
            else
                e.x[i] = s.real(-10, 10);
        }
    };
    auto genQuery = [&]()
    {
        E q;
        q.id = -1;
        if (!live.empty() && s.chance(80))
        {
            q = live[s.pick(live.size())];
            if (s.flag())
                q.id = -1;  // same location, foreign identity
        }
        else
            genPoint(q);
        return q;
    };
    auto isLive = [&](const E &e)
    {
        for (auto &l : live)
            if (l.id == e.id)
            {
                for (int i = 0; i < 3; ++i)
                    if (l.x[i] != e.x[i])
                        return false;
                return true;
            }
        return false;
    };
    auto sortedDists = [&](const E &q)
    {
        std::vector<double> d;
        for (auto &l : live)
            d.push_back(dist(l, q));
        std::sort(d.begin(), d.end());
        return d;
    };
    auto checkResult = [&](const char *what, const E &q, const std::vector<E> &res)
    {
        std::set<int> seen;
        double prev = -1;
        for (auto &e : res)
        {
            VCHECK(c, isLive(e), "C10/not-live", "%s returned element #%d which is not a current member (removed or never added); size %zu", what,
                   e.id, live.size());
            VCHECK(c, seen.insert(e.id).second, "C10/duplicate-result", "%s returned element #%d twice", what, e.id);
            double d = dist(e, q);
            VCHECK(c, d >= prev, "C10/result-order", "%s results not in non-decreasing distance order (%.17g after %.17g)", what, d, prev);
            prev = d;
        }
    };
    bool removedThenQueried = false, removedSinceSplit = false, nt = false;
    auto verifySizeList = [&](const char *after, bool full)
    {
        VCHECK(c, nn->size() == live.size(), "C10/size", "after %s: size()=%zu, model %zu", after, nn->size(), live.size());
        if (!full)
            return;
        std::vector<E> lst;
        nn->list(lst);
        std::vector<int> a, b;
        for (auto &e : lst)
        {
            VCHECK(c, isLive(e), "C10/list-not-live", "after %s: list() contains #%d which is not a current member (list %zu, model %zu)", after,
                   e.id, lst.size(), live.size());
            a.push_back(e.id);
        }
        for (auto &e : live)
            b.push_back(e.id);
        std::sort(a.begin(), a.end());
        std::sort(b.begin(), b.end());
        VCHECK(c, a == b, "C10/list", "after %s: list() multiset (%zu) differs from model (%zu)", after, a.size(), b.size());
    };

    int nops = s.in(1, 70);
    for (int op = 0; op < nops && !s.exhausted(); ++op)
    {
        size_t what = s.weighted({7, 4, 5, 1, 1, 3, 4, 4, 2});
        switch (what)
        {
            case 0:
            {
                E e;
                e.id = nextId++;
                genPoint(e);
                c.note("add#%d(%g,%g,%g) ", e.id, e.x[0], e.x[1], e.x[2]);
                nn->add(e);
                live.push_back(e);
                verifySizeList("add", false);
                break;
            }
            case 1:
            {
                int n = s.in(0, 24);
                std::vector<E> v(n);
                for (auto &e : v)
                {
                    e.id = nextId++;
                    genPoint(e);
                }
                c.note("addv(%d) ", n);
                nn->add(v);
                live.insert(live.end(), v.begin(), v.end());
                verifySizeList("add(vector)", s.chance(64));
                break;
            }
            case 2:
            {
                if (live.empty())
                    break;
                size_t i = s.pick(live.size());
                E e = live[i];
                c.note("remove#%d ", e.id);
                bool r = nn->remove(e);
                VCHECK(c, r, "C10/remove-present", "remove(#%d) of a current member returned false (size %zu)", e.id, live.size());
                live.erase(live.begin() + i);
                removedSinceSplit = true;
                verifySizeList("remove", s.chance(96));
                break;
            }
            case 3:
            {
                E e = genQuery();
                e.id = nextId++;  // never added
                c.note("remove-absent ");
                bool r = nn->remove(e);
                VCHECK(c, !r, "C10/remove-absent", "remove() of an element that was never added returned true");
                verifySizeList("remove(absent)", s.chance(64));
                break;
            }
            case 4:
                c.note("clear ");
                nn->clear();
                live.clear();
                removedSinceSplit = false;
                verifySizeList("clear", true);
                break;
            case 5:
            {
                E q = genQuery();
                c.note("nearest ");
                if (live.empty())
                {
                    bool threw = false;
                    try
                    {
                        nn->nearest(q);
                    }
                    catch (const ompl::Exception &)
                    {
                        threw = true;
                    }
                    VCHECK(c, threw, "C10/nearest-empty", "nearest() on an empty structure did not throw");
                    break;
                }
                E r = nn->nearest(q);
                VCHECK(c, isLive(r), "C10/not-live", "nearest returned element #%d which is not a current member; size %zu", r.id, live.size());
                if (exact)
                {
                    double best = sortedDists(q)[0];
                    VCHECK(c, close(dist(r, q), best), "C10/nearest", "nearest returned distance %.17g, brute force %.17g (size %zu)", dist(r, q), best,
                           live.size());
                }
                if (removedSinceSplit && live.size() > leaf)
                    removedThenQueried = true;
                break;
            }
            case 6:
            {
                E q = genQuery();
                size_t k;
                switch (s.weighted({1, 2, 4, 1, 1}))
                {
                    case 0:
                        k = 0;
                        break;
                    case 1:
                        k = 1;
                        break;
                    case 2:
                        k = (size_t)s.in(2, 12);
                        break;
                    case 3:
                        k = live.size();
                        break;
                    default:
                        k = live.size() + 3;
                }
                c.note("nearestK(%zu) ", k);
                std::vector<E> res;
                nn->nearestK(q, k, res);
                checkResult("nearestK", q, res);
                std::vector<double> ref = sortedDists(q);
                ref.resize(std::min(k, ref.size()));
                VCHECK(c, res.size() == ref.size(), "C10/nearestK-count", "nearestK(k=%zu) returned %zu elements, brute force %zu (size %zu)", k,
                       res.size(), ref.size(), live.size());
                for (size_t i = 0; i < res.size(); ++i)
                    VCHECK(c, close(dist(res[i], q), ref[i]), "C10/nearestK", "nearestK(k=%zu): %zu-th distance %.17g, brute force %.17g (size %zu)", k, i,
                           dist(res[i], q), ref[i], live.size());
                if (removedSinceSplit && live.size() > leaf && k > 0)
                    removedThenQueried = true;
                break;
            }
            case 7:
            {
                E q = genQuery();
                double r;
                switch (s.weighted({1, 4, 1, 3}))
                {
                    case 0:
                        r = 0;
                        break;
                    case 1:
                        r = live.empty() ? 1.0 : dist(live[s.pick(live.size())], q);  // an exact tie distance
                        break;
                    case 2:
                        r = 1e9;
                        break;
                    default:
                        r = s.real(0, distr == 0 ? 4 : distr == 1 ? 12 : distr == 2 ? 3 : 8);
                }
                c.note("nearestR(%.17g) ", r);
                std::vector<E> res;
                nn->nearestR(q, r, res);
                checkResult("nearestR", q, res);
                std::vector<double> ref, got;
                for (double d : sortedDists(q))
                    if (d <= r)
                        ref.push_back(d);
                for (auto &e : res)
                {
                    got.push_back(dist(e, q));
                    VCHECK(c, got.back() <= r, "C10/nearestR-outside", "nearestR(r=%.17g) returned an element at distance %.17g", r, got.back());
                }
                if (!exactArith)
                {
                    // drop boundary ties from both sides before comparing
                    auto tie = [&](double d) { return std::fabs(d - r) <= 1e-12 * (1 + 2 * std::fabs(r)); };
                    ref.erase(std::remove_if(ref.begin(), ref.end(), tie), ref.end());
                    got.erase(std::remove_if(got.begin(), got.end(), tie), got.end());
                }
                VCHECK(c, got.size() == ref.size(), "C10/nearestR-count", "nearestR(r=%.17g) returned %zu elements, brute force %zu (size %zu)", r,
                       got.size(), ref.size(), live.size());
                for (size_t i = 0; i < got.size(); ++i)
                    VCHECK(c, got[i] == ref[i], "C10/nearestR", "nearestR: %zu-th distance %.17g, brute force %.17g", i, got[i], ref[i]);
                if (removedSinceSplit && live.size() > leaf)
                    removedThenQueried = true;
                break;
            }
            case 8:
                c.note("list ");
                verifySizeList("list", true);
                break;
        }
    }
    verifySizeList("end", true);
    nt = removedThenQueried;
    c.count(kn[kind]);
    c.count(nt ? "query-after-remove-in-split-tree" : "other");
    if (kind <= 1)
        c.count(leaf < maxDeg ? "gnat:leaf<maxDegree" : "gnat:leaf>=maxDegree");
    c.nontrivial = nt;
}

#include "../core/runner.h"
