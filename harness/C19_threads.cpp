// C19 (part 1, ThreadSanitizer flavor) — concurrent use of the documented thread-safe surface is race-free.
// Generated operation mixes and thread counts, threads released together from a barrier; TSan judges the executed accesses for all
// schedules (happens-before), count / result oracles catch lost updates independently of TSan.
#include "../core/verif.h"
#include "ompl/base/PlannerTerminationCondition.h"
#include "ompl/base/ProblemDefinition.h"
#include "ompl/base/SpaceInformation.h"
#include "ompl/base/spaces/RealVectorStateSpace.h"
#include "ompl/base/spaces/SE2StateSpace.h"
#include "ompl/base/spaces/SE3StateSpace.h"
#include "ompl/datastructures/NearestNeighborsGNAT.h"
#include "ompl/geometric/PathGeometric.h"
#include "ompl/geometric/planners/rrt/RRT.h"
#include "ompl/util/Console.h"
#include "ompl/util/RandomNumbers.h"
#include <atomic>
#include <thread>

namespace ob = ompl::base;
namespace og = ompl::geometric;

#define VF_HAS_PROCESS_INIT
void vf::process_init()
{
    ompl::msg::setLogLevel(ompl::msg::LOG_NONE);
}

vf::Config vf::config()
{
    Config c;
    c.property = "C19";
    c.maxLen = 200;
    c.batch = 1;  // a TSan report is attributed to one case
    c.caseTimeout = 60;
    c.hardTimeout = 300;
    return c;
}

namespace
{
    struct Barrier
    {
        std::atomic<int> waiting{0};
        int n;
        explicit Barrier(int k) : n(k)
        {
        }
        void arrive()
        {
            waiting.fetch_add(1);
            while (waiting.load() < n)
                std::this_thread::yield();
        }
    };
    struct P2
    {
        int id;
        double x, y;
        bool operator==(const P2 &o) const
        {
            return id == o.id;
        }
        bool operator!=(const P2 &o) const
        {
            return id != o.id;
        }
    };
    double d2(const P2 &a, const P2 &b)
    {
        return std::fabs(a.x - b.x) + std::fabs(a.y - b.y);
    }
}  // namespace

void vf::run_case(Src &s, Ctx &c)
{
    ompl::RNG::setSeed(1 + (unsigned)s.u(0, 100000));
    const int T = s.in(2, 16);
    const int N = s.in(20, 400);
    size_t mix = s.weighted({5, 4, 3, 4, 3, 2});
    static const char *mn[] = {"shared-SpaceInformation(checkMotion/isValid)", "shared-GNAT-queries", "RNG-and-StateSpace-construction", "shared-ProblemDefinition(add/read solutions)",
                               "terminate()-from-another-thread", "logging"};
    c.note("mix=%s threads=%d ops/thread=%d\n", mn[mix], T, N);
    c.count(std::string("mix:") + mn[mix]);
    c.context(mn[mix]);
    std::atomic<int> overlapped{0};
    std::atomic<int> active{0};
    auto enter = [&]()
    {
        if (active.fetch_add(1) >= 1)
            overlapped.fetch_add(1);
    };
    auto leave = [&]() { active.fetch_sub(1); };
    switch (mix)
    {
        case 0:
        {
            auto sp = std::make_shared<ob::RealVectorStateSpace>(2);
            sp->setBounds(0, 10);
            auto si = std::make_shared<ob::SpaceInformation>(sp);
            si->setStateValidityChecker([](const ob::State *st) { return st->as<ob::RealVectorStateSpace::StateType>()->values[0] < 7.0; });
            si->setup();
            // sequential recount first (expected valid / invalid split), on the same pairs every thread will use
            std::vector<std::pair<ob::State *, ob::State *>> pairs;
            for (int i = 0; i < N; ++i)
            {
                ob::State *a = si->allocState(), *b = si->allocState();
                a->as<ob::RealVectorStateSpace::StateType>()->values[0] = s.real(0, 6.9);
                a->as<ob::RealVectorStateSpace::StateType>()->values[1] = s.real(0, 10);
                b->as<ob::RealVectorStateSpace::StateType>()->values[0] = s.real(0, 10);
                b->as<ob::RealVectorStateSpace::StateType>()->values[1] = s.real(0, 10);
                pairs.push_back({a, b});
            }
            unsigned seqValid = 0;
            for (auto &p : pairs)
                seqValid += si->checkMotion(p.first, p.second);
            si->getMotionValidator()->resetMotionCounter();
            Barrier bar(T);
            std::vector<std::thread> th;
            std::atomic<unsigned> gotValid{0};
            for (int t = 0; t < T; ++t)
                th.emplace_back(
                    [&, t]()
                    {
                        bar.arrive();
                        enter();
                        unsigned v = 0;
                        for (int i = 0; i < N; ++i)
                        {
                            auto &p = pairs[(i + t) % N];
                            v += si->checkMotion(p.first, p.second);
                            (void)si->isValid(p.second);
                        }
                        gotValid += v;
                        leave();
                    });
            for (auto &x : th)
                x.join();
            unsigned checked = si->getMotionValidator()->getCheckedMotionCount();
            unsigned valid = si->getMotionValidator()->getValidMotionCount();
            for (auto &p : pairs)
            {
                si->freeState(p.first);
                si->freeState(p.second);
            }
            VCHECK(c, gotValid.load() == seqValid * (unsigned)T, "C19/checkMotion-result", "concurrent checkMotion verdicts differ from the sequential ones (%u vs %u)", gotValid.load(),
                   seqValid * T);
            VCHECK(c, checked == (unsigned)(T * N), "C19/motion-counter-lost-update", "%d threads x %d checkMotion calls, getCheckedMotionCount() = %u", T, N, checked);
            VCHECK(c, valid == seqValid * (unsigned)T, "C19/motion-counter-split", "valid-motion counter %u, sequential recount %u", valid, seqValid * T);
            break;
        }
        case 1:
        {
            ompl::NearestNeighborsGNAT<P2> nn((unsigned)s.in(2, 8), 2, 12, (unsigned)s.in(2, 20), 50, false);
            nn.setDistanceFunction(d2);
            int M = s.in(30, 300);
            std::vector<P2> pts;
            for (int i = 0; i < M; ++i)
                pts.push_back(P2{i, (double)s.in(0, 40), (double)s.in(0, 40)});
            nn.add(pts);
            std::vector<P2> queries;
            for (int i = 0; i < 32; ++i)
                queries.push_back(P2{-1, (double)s.in(0, 40), (double)s.in(0, 40)});
            // sequential answers (distance vectors)
            std::vector<std::vector<double>> seq;
            for (auto &q : queries)
            {
                std::vector<P2> r;
                nn.nearestK(q, 5, r);
                std::vector<double> dv;
                for (auto &e : r)
                    dv.push_back(d2(e, q));
                std::vector<P2> r2;
                nn.nearestR(q, 6.0, r2);
                dv.push_back((double)r2.size());
                dv.push_back(d2(nn.nearest(q), q));
                seq.push_back(dv);
            }
            Barrier bar(T);
            std::atomic<int> mismatches{0};
            std::vector<std::thread> th;
            for (int t = 0; t < T; ++t)
                th.emplace_back(
                    [&, t]()
                    {
                        bar.arrive();
                        enter();
                        for (int i = 0; i < N; ++i)
                        {
                            size_t qi = (size_t)(i + t) % queries.size();
                            const P2 &q = queries[qi];
                            std::vector<P2> r;
                            nn.nearestK(q, 5, r);
                            std::vector<double> dv;
                            for (auto &e : r)
                                dv.push_back(d2(e, q));
                            std::vector<P2> r2;
                            nn.nearestR(q, 6.0, r2);
                            dv.push_back((double)r2.size());
                            dv.push_back(d2(nn.nearest(q), q));
                            if (dv != seq[qi])
                                mismatches++;
                        }
                        leave();
                    });
            for (auto &x : th)
                x.join();
            VCHECK(c, mismatches.load() == 0, "C19/gnat-concurrent-query-result", "%d concurrent GNAT query results differ from the sequential answers", mismatches.load());
            break;
        }
        case 2:
        {
            Barrier bar(T);
            std::vector<std::thread> th;
            std::vector<std::vector<std::uint_fast32_t>> seeds(T);
            for (int t = 0; t < T; ++t)
                th.emplace_back(
                    [&, t]()
                    {
                        bar.arrive();
                        enter();
                        for (int i = 0; i < std::min(N, 60); ++i)
                        {
                            ompl::RNG r;
                            seeds[t].push_back(r.getLocalSeed());
                            (void)r.uniform01();
                            if (i % 3 == 0)
                            {
                                auto sp = std::make_shared<ob::SE3StateSpace>();
                                ob::RealVectorBounds b(3);
                                b.setLow(-1);
                                b.setHigh(1);
                                sp->setBounds(b);
                                sp->setup();
                                ob::State *st = sp->allocState();
                                sp->allocStateSampler()->sampleUniform(st);
                                sp->freeState(st);
                            }
                            else if (i % 3 == 1)
                            {
                                auto sp = std::make_shared<ob::SE2StateSpace>();
                                sp->setName("space-" + std::to_string(t) + "-" + std::to_string(i));
                            }
                        }
                        leave();
                    });
            for (auto &x : th)
                x.join();
            // every generator got its own seed (the seed generator is mutex protected: no two threads may draw the same value by a lost update)
            std::multiset<std::uint_fast32_t> all;
            for (auto &v : seeds)
                all.insert(v.begin(), v.end());
            size_t dup = 0;
            for (auto it = all.begin(); it != all.end(); ++it)
                if (all.count(*it) > 1)
                    ++dup;
            c.stat("duplicate-local-seeds", (double)dup);
            VCHECK(c, dup <= 2, "C19/rng-seed-duplicates", "%zu of %zu concurrently created generators share a local seed (lost update in the seed generator)", dup, all.size());
            break;
        }
        case 3:
        {
            auto sp = std::make_shared<ob::RealVectorStateSpace>(1);
            sp->setBounds(0, 1);
            auto si = std::make_shared<ob::SpaceInformation>(sp);
            si->setStateValidityChecker([](const ob::State *) { return true; });
            si->setup();
            auto pdef = std::make_shared<ob::ProblemDefinition>(si);
            const int per = std::min(N, 80);
            Barrier bar(T);
            std::vector<std::thread> th;
            std::atomic<int> readerBad{0};
            for (int t = 0; t < T; ++t)
                th.emplace_back(
                    [&, t]()
                    {
                        bar.arrive();
                        enter();
                        for (int i = 0; i < per; ++i)
                        {
                            if (t % 3 != 2)
                            {
                                auto path = std::make_shared<og::PathGeometric>(si);
                                ob::State *st = si->allocState();
                                st->as<ob::RealVectorStateSpace::StateType>()->values[0] = (t * 131 + i) % 97 / 97.0;
                                path->append(st);
                                st->as<ob::RealVectorStateSpace::StateType>()->values[0] = (t * 17 + i * 7) % 89 / 89.0;
                                path->append(st);
                                si->freeState(st);
                                bool approx = (t + i) % 4 == 0;
                                pdef->addSolutionPath(path, approx, approx ? 0.01 * (1 + (i % 9)) : 0.0, "thread" + std::to_string(t));
                            }
                            else
                            {
                                auto sols = pdef->getSolutions();
                                for (size_t k = 0; k + 1 < sols.size(); ++k)
                                    if (sols[k + 1] < sols[k])
                                        readerBad++;
                                (void)pdef->hasExactSolution();
                                (void)pdef->getSolutionPath();
                            }
                        }
                        leave();
                    });
            for (auto &x : th)
                x.join();
            int writers = 0;
            for (int t = 0; t < T; ++t)
                writers += t % 3 != 2;
            auto sols = pdef->getSolutions();
            VCHECK(c, (int)sols.size() == writers * per, "C19/pdef-lost-solution", "%d writer threads x %d solutions were added, the problem definition holds %zu", writers, per,
                   sols.size());
            for (size_t k = 0; k + 1 < sols.size(); ++k)
                VCHECK(c, !(sols[k + 1] < sols[k]), "C19/pdef-unsorted", "solutions are not sorted after concurrent insertion");
            VCHECK(c, readerBad.load() == 0, "C19/pdef-reader-saw-unsorted", "a concurrent reader observed an unsorted solution list %d times", readerBad.load());
            break;
        }
        case 4:
        {
            // a planner polls the condition while another thread asks it to terminate
            auto sp = std::make_shared<ob::RealVectorStateSpace>(2);
            sp->setBounds(0, 10);
            auto si = std::make_shared<ob::SpaceInformation>(sp);
            si->setStateValidityChecker([](const ob::State *st) { return st->as<ob::RealVectorStateSpace::StateType>()->values[0] < 9.5; });
            si->setup();
            auto pdef = std::make_shared<ob::ProblemDefinition>(si);
            ob::ScopedState<> a(sp), b(sp);
            a[0] = 1;
            a[1] = 1;
            b[0] = 9.9;  // unreachable: the planner runs until terminated
            b[1] = 9;
            pdef->setStartAndGoalStates(a, b, 0.01);
            auto rrt = std::make_shared<og::RRT>(si);
            rrt->setProblemDefinition(pdef);
            rrt->setup();
            // the condition the planner polls: evaluated directly, or by the library's own helper thread every `period` seconds
            // (all of them can only become true through terminate(): their own predicate / time budget never fires in this case)
            static const char *kindName[] = {"non-terminating", "direct-function", "periodic-function", "timed-with-interval", "or-of-direct-and-periodic"};
            const size_t kind = s.weighted({2, 1, 3, 3, 2});
            const double period = 0.001 * s.in(1, 40);
            // everything the solver thread touches lives on the heap and is deliberately leaked if that thread turns out to be stuck
            // (the failure is reported by unwinding this frame; a stuck thread must not be left with dangling references)
            struct Shared
            {
                std::shared_ptr<og::RRT> rrt;
                ob::PlannerTerminationCondition never{[] { return false; }};
                ob::PlannerTerminationCondition ptc{ob::plannerNonTerminatingCondition()};
                std::atomic<bool> returned{false};
                std::atomic<int> notSticky{0};
            };
            auto *sh = new Shared;
            sh->rrt = rrt;
            sh->ptc = kind == 0 ? ob::plannerNonTerminatingCondition() :
                      kind == 1 ? sh->never :
                      kind == 2 ? ob::PlannerTerminationCondition([] { return false; }, period) :
                      kind == 3 ? ob::timedPlannerTerminationCondition(3600.0, period) :
                                  ob::plannerOrTerminationCondition(sh->never, ob::PlannerTerminationCondition([] { return false; }, period));
            c.count(std::string("terminate-kind:") + kindName[kind]);
            c.note(" condition kind %s, period %.3f s\n", kindName[kind], period);
            std::thread solver(
                [&enter, &leave, sh]()
                {
                    enter();
                    sh->rrt->solve(sh->ptc);
                    sh->returned = true;
                    leave();
                });
            std::vector<std::thread> th;
            int delayUs = s.in(0, 3000);
            for (int t = 0; t < std::min(T, 4); ++t)
                th.emplace_back(
                    [&, t]()
                    {
                        enter();
                        std::this_thread::sleep_for(std::chrono::microseconds(delayUs + 50 * t));
                        sh->ptc.terminate();
                        // once terminate() has returned, every evaluation - here, in the same thread - must answer true
                        if (!sh->ptc.eval())
                            sh->notSticky++;
                        leave();
                    });
            for (auto &x : th)
                x.join();
            // bounded wait: the planner must come back after terminate()
            const int ns = sh->notSticky.load();
            for (int k = 0; k < (ns > 0 ? 2000 : 20000) && !sh->returned.load(); ++k)
                std::this_thread::sleep_for(std::chrono::milliseconds(1));
            bool ok = sh->returned.load();
            if (ok)
            {
                solver.join();
                delete sh;
            }
            else
                solver.detach();  // never join a stuck thread; `sh` stays alive for it
            if (ns > 0)
                c.fail("C19/terminate-not-visible", vf::fmt("%s condition: eval() answered false in %d thread(s) right after their own terminate() call had returned%s",
                                                            kindName[kind], ns, ok ? "" : "; the planner polling it did not return either"));
            if (!ok)
                c.fail("C19/terminate-ignored", vf::fmt("RRT did not return within 20 s after terminate() was called from another thread (%s condition)", kindName[kind]));
            break;
        }
        default:
        {
            ompl::msg::setLogLevel(ompl::msg::LOG_WARN);
            struct Sink : ompl::msg::OutputHandler
            {
                std::atomic<int> n{0};
                void log(const std::string &text, ompl::msg::LogLevel, const char *, int) override
                {
                    if (!text.empty())
                        n++;
                }
            } sink;
            ompl::msg::useOutputHandler(&sink);
            Barrier bar(T);
            std::vector<std::thread> th;
            const int per = std::min(N, 100);
            for (int t = 0; t < T; ++t)
                th.emplace_back(
                    [&, t]()
                    {
                        bar.arrive();
                        enter();
                        for (int i = 0; i < per; ++i)
                            OMPL_WARN("thread %d message %d", t, i);
                        leave();
                    });
            for (auto &x : th)
                x.join();
            ompl::msg::restorePreviousOutputHandler();
            ompl::msg::setLogLevel(ompl::msg::LOG_NONE);
            VCHECK(c, sink.n.load() == T * per, "C19/log-lost-message", "%d threads x %d messages, the handler saw %d", T, per, sink.n.load());
        }
    }
    c.count(overlapped.load() > 0 ? "threads-overlapped" : "no-overlap-observed");
    c.nontrivial = overlapped.load() > 0;
}

#include "../core/runner.h"
