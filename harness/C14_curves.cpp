// C14 — Dubins and Reeds-Shepp distances are the lengths of real, optimal curves.
#include "../core/verif.h"
#include "ompl/base/spaces/DubinsStateSpace.h"
#include "ompl/base/spaces/ReedsSheppStateSpace.h"
#include "ompl/util/Console.h"
#include <algorithm>
#include <memory>

namespace ob = ompl::base;
static const double PI = 3.14159265358979323846;

#define VF_HAS_PROCESS_INIT
void vf::process_init()
{
    ompl::msg::setLogLevel(ompl::msg::LOG_NONE);
}

vf::Config vf::config()
{
    Config c;
    c.property = "C14";
    c.maxLen = 200;
    c.batch = 2000;
    return c;
}

namespace
{
    struct Pose
    {
        double x, y, th;
    };
    double mod2pi(double x)
    {
        double v = std::fmod(x, 2 * PI);
        if (v < 0)
            v += 2 * PI;
        return v;
    }
    double wrapPi(double a)
    {
        return std::remainder(a, 2 * PI);
    }
    // forward integration of a word (unit turning radius)
    Pose integrate(Pose p, const char *word, const double *len)
    {
        for (int i = 0; i < 3; ++i)
        {
            double l = len[i];
            if (word[i] == 'S')
            {
                p.x += l * std::cos(p.th);
                p.y += l * std::sin(p.th);
            }
            else if (word[i] == 'L')
            {
                p.x += std::sin(p.th + l) - std::sin(p.th);
                p.y += -std::cos(p.th + l) + std::cos(p.th);
                p.th += l;
            }
            else
            {
                p.x += -std::sin(p.th - l) + std::sin(p.th);
                p.y += std::cos(p.th - l) - std::cos(p.th);
                p.th -= l;
            }
        }
        return p;
    }
    // Independent six-word Dubins solver (unit radius, written from the Dubins equations). Every candidate is validated by forward
    // integration to the goal pose before it may count; like the library's mod2pi, a segment within 1e-6 of a full circle may be dropped.
    double dubinsReference(Pose a, Pose b, std::string *best = nullptr)
    {
        double dx = b.x - a.x, dy = b.y - a.y, d = std::hypot(dx, dy), th = std::atan2(dy, dx);
        double alpha = mod2pi(a.th - th), beta = mod2pi(b.th - th);
        double sa = std::sin(alpha), sb = std::sin(beta), ca = std::cos(alpha), cb = std::cos(beta), cab = std::cos(alpha - beta);
        struct W
        {
            const char *w;
            double l[3];
            bool ok;
        } ws[6];
        int n = 0;
        auto add = [&](const char *w, double t, double p, double q) { ws[n++] = W{w, {t, p, q}, true}; };
        double tmp = 2 + d * d - 2 * cab + 2 * d * (sa - sb);
        if (tmp >= -1e-12)
        {
            double t0 = std::atan2(cb - ca, d + sa - sb);
            add("LSL", mod2pi(-alpha + t0), std::sqrt(std::max(tmp, 0.0)), mod2pi(beta - t0));
        }
        tmp = 2 + d * d - 2 * cab + 2 * d * (sb - sa);
        if (tmp >= -1e-12)
        {
            double t0 = std::atan2(ca - cb, d - sa + sb);
            add("RSR", mod2pi(alpha - t0), std::sqrt(std::max(tmp, 0.0)), mod2pi(-beta + t0));
        }
        tmp = -2 + d * d + 2 * cab + 2 * d * (sa + sb);
        if (tmp >= -1e-12)
        {
            double p = std::sqrt(std::max(tmp, 0.0)), t0 = std::atan2(-ca - cb, d + sa + sb) - std::atan2(-2.0, p);
            add("LSR", mod2pi(-alpha + t0), p, mod2pi(-mod2pi(beta) + t0));
        }
        tmp = -2 + d * d + 2 * cab - 2 * d * (sa + sb);
        if (tmp >= -1e-12)
        {
            double p = std::sqrt(std::max(tmp, 0.0)), t0 = std::atan2(ca + cb, d - sa - sb) - std::atan2(2.0, p);
            add("RSL", mod2pi(alpha - t0), p, mod2pi(beta - t0));
        }
        tmp = (6 - d * d + 2 * cab + 2 * d * (sa - sb)) / 8;
        if (std::fabs(tmp) <= 1 + 1e-12)
        {
            double p = 2 * PI - std::acos(std::max(-1.0, std::min(1.0, tmp))), t = mod2pi(alpha - std::atan2(ca - cb, d - sa + sb) + p / 2);
            add("RLR", t, p, mod2pi(alpha - beta - t + p));
        }
        tmp = (6 - d * d + 2 * cab + 2 * d * (-sa + sb)) / 8;
        if (std::fabs(tmp) <= 1 + 1e-12)
        {
            double p = 2 * PI - std::acos(std::max(-1.0, std::min(1.0, tmp))), t = mod2pi(-alpha + std::atan2(-ca + cb, d + sa - sb) + p / 2);
            add("LRL", t, p, mod2pi(beta - alpha - t + p));
        }
        double bestLen = 1e300;
        for (int i = 0; i < n; ++i)
        {
            // the candidate as computed, and with near-full-circle segments dropped
            for (int variant = 0; variant < 2; ++variant)
            {
                double l[3] = {ws[i].l[0], ws[i].l[1], ws[i].l[2]};
                if (variant == 1)
                {
                    bool changed = false;
                    for (int k = 0; k < 3; ++k)
                        if (ws[i].w[k] != 'S' && l[k] > 2 * PI - 1e-6)
                        {
                            l[k] = 0;
                            changed = true;
                        }
                    if (!changed)
                        continue;
                }
                Pose e = integrate(a, ws[i].w, l);
                double err = std::hypot(e.x - b.x, e.y - b.y) + std::fabs(wrapPi(e.th - b.th));
                if (err > 1e-6)
                    continue;
                double tot = l[0] + l[1] + l[2];
                if (tot < bestLen)
                {
                    bestLen = tot;
                    if (best)
                        *best = ws[i].w;
                }
            }
        }
        return bestLen;
    }

    void setPose(ob::State *s, const Pose &p)
    {
        auto *q = s->as<ob::SE2StateSpace::StateType>();
        q->setXY(p.x, p.y);
        double th = wrapPi(p.th);
        if (th >= PI)
            th = -PI;
        q->setYaw(th);
    }
    Pose getPose(const ob::State *s)
    {
        auto *q = s->as<ob::SE2StateSpace::StateType>();
        return Pose{q->getX(), q->getY(), q->getYaw()};
    }
}  // namespace

void vf::run_case(Src &s, Ctx &c)
{
    double rho = s.weighted({3, 2}) == 0 ? 1.0 : s.logreal(0.25, 4.0);
    size_t kind = s.weighted({5, 2, 4});  // Dubins, symmetric Dubins, Reeds-Shepp
    auto mk = [&](size_t k) -> std::shared_ptr<ob::SE2StateSpace>
    {
        std::shared_ptr<ob::SE2StateSpace> sp;
        if (k == 0)
            sp = std::make_shared<ob::DubinsStateSpace>(rho, false);
        else if (k == 1)
            sp = std::make_shared<ob::DubinsStateSpace>(rho, true);
        else
            sp = std::make_shared<ob::ReedsSheppStateSpace>(rho);
        ob::RealVectorBounds b(2);
        b.setLow(-1000);
        b.setHigh(1000);
        sp->setBounds(b);
        sp->setup();
        return sp;
    };
    auto sp = mk(kind);
    auto dub = kind == 0 ? sp : mk(0);
    const char *kn[] = {"Dubins", "Dubins(symmetric)", "ReedsShepp"};
    // pose pair classes
    Pose a{s.real(-5, 5), s.real(-5, 5), 0}, b{};
    static const double quad[] = {0, PI / 2, PI, -PI / 2, PI / 4, -3 * PI / 4};
    auto heading = [&]()
    {
        switch (s.weighted({5, 3, 2}))
        {
            case 0:
                return s.real(-PI, PI);
            case 1:
                return quad[s.pick(6)];
            default:
                return quad[s.pick(6)] + (s.flag() ? 1 : -1) * (s.flag() ? 1e-4 : 1e-9);
        }
    };
    a.th = heading();
    size_t cls = s.weighted({4, 4, 2, 2, 2});
    const char *cn[] = {"far", "within-4rho", "same-position", "collinear", "long-path-boundary"};
    switch (cls)
    {
        case 0:
        {
            double r = rho * s.real(4, 20), t = s.real(-PI, PI);
            b = Pose{a.x + r * std::cos(t), a.y + r * std::sin(t), heading()};
            break;
        }
        case 1:
        {
            double r = rho * s.real(0.05, 4), t = s.real(-PI, PI);
            b = Pose{a.x + r * std::cos(t), a.y + r * std::sin(t), heading()};
            break;
        }
        case 2:
            b = Pose{a.x, a.y, heading()};
            break;
        case 3:
        {
            double r = rho * s.real(0.1, 10) * (s.flag() ? 1 : -1);
            b = Pose{a.x + r * std::cos(a.th), a.y + r * std::sin(a.th), s.flag() ? a.th : a.th + PI};
            break;
        }
        default:
        {
            // |sin a| + |sin b| + 4 = d : the library's isLongPath boundary
            double hb = heading();
            double t = s.real(-PI, PI);
            double al = mod2pi(a.th - t), be = mod2pi(hb - t);
            double r = rho * (std::fabs(std::sin(al)) + std::fabs(std::sin(be)) + 4 + (s.flag() ? 1 : -1) * s.logreal(1e-9, 1e-2));
            b = Pose{a.x + r * std::cos(t), a.y + r * std::sin(t), hb};
        }
    }
    ob::State *A = sp->allocState(), *B = sp->allocState(), *X = sp->allocState(), *Y = sp->allocState();
    struct G
    {
        std::shared_ptr<ob::SE2StateSpace> sp;
        ob::State *s[4];
        ~G()
        {
            for (auto *x : s)
                sp->freeState(x);
        }
    } guard{sp, {A, B, X, Y}};
    setPose(A, a);
    setPose(B, b);
    a = getPose(A);
    b = getPose(B);
    c.note("%s rho=%.6g class=%s\n A=(%.17g, %.17g, %.17g)\n B=(%.17g, %.17g, %.17g)\n", kn[kind], rho, cn[cls], a.x, a.y, a.th, b.x, b.y, b.th);
    c.count(std::string("space:") + kn[kind]);
    c.count(std::string("pair:") + cn[cls]);
    const double d = sp->distance(A, B);
    const double eu = std::hypot(a.x - b.x, a.y - b.y);
    const std::string fam = std::string("/") + kn[kind];
    VCHECK(c, std::isfinite(d) && d >= 0, "C14/finite" + fam, "distance %.17g", d);
    const double slack = 1e-5 * (rho + d);
    // below the solvers' 1e-6 grain (in units of rho) the "curve" is a straight piece whatever the direction: not judged
    if (eu < 1e-5 * std::max(1.0, rho) && std::fabs(wrapPi(a.th - b.th)) < 1e-5)
    {
        c.count("unjudged:poses-below-solver-eps");
        c.nontrivial = false;
        return;
    }
    // (iii) never below the straight-line distance
    VCHECK(c, d >= eu - slack, "C14/below-euclid" + fam, "%s distance %.12g is less than the straight-line distance %.12g", kn[kind], d, eu);
    // (i) Dubins = shortest of the six words
    std::string word;
    Pose ua{a.x / rho, a.y / rho, a.th}, ub{b.x / rho, b.y / rho, b.th};
    double ref = rho * dubinsReference(ua, ub, &word);
    bool ccc = word == "RLR" || word == "LRL";
    if (kind == 0 && ref < 1e299)
    {
        c.stat("dubins-minus-reference/rho", (d - ref) / rho);
        c.stat("reference-minus-dubins/rho", (ref - d) / rho);
        // the Dubins length is discontinuous in the poses and the library snaps below 1e-6: when a 2e-6 nudge of the target explains a
        // mismatch it is that grain (see C07); a wrong table entry or formula is unaffected by such a nudge
        if (std::fabs(d - ref) > slack)
        {
            bool explained = false;
            for (int k = 0; k < 12 && !explained; ++k)
            {
                Pose nb = b;
                double e = (k % 2 ? -1 : 1) * (k < 6 ? 2e-7 : 2e-6) * std::max(1.0, rho);
                if (k % 6 < 2)
                    nb.th += e / std::max(1.0, rho);
                else if (k % 6 < 4)
                    nb.x += e;
                else
                    nb.y += e;
                setPose(Y, nb);
                Pose un{nb.x / rho, nb.y / rho, nb.th};
                double r2 = rho * dubinsReference(ua, un);
                if (std::fabs(sp->distance(A, Y) - r2) <= slack || std::fabs(d - r2) <= slack || std::fabs(sp->distance(A, Y) - ref) <= slack)
                    explained = true;
            }
            if (explained)
                c.count("unjudged:dubins-eps-discontinuity");
            else
                c.fail(d > ref ? "C14/dubins-longer-than-shortest-word" : "C14/dubins-shorter-than-any-word",
                       vf::fmt("Dubins(rho=%.6g) distance %.12g, shortest validated word %s has length %.12g", rho, d, word.c_str(), ref));
        }
    }
    // (iv) symmetry and ordering between the spaces
    if (kind != 0)
    {
        double dr = sp->distance(B, A);
        if (!(std::fabs(d - dr) <= slack))
        {
            std::string key = "C14/asymmetric" + fam;
            if (kind == 2 && std::min(d, dr) < 0.05 * rho)
                key += "(poses-closer-than-0.05-rho)";
            c.failOrKnown(key, vf::fmt("%s: d(A,B)=%.12g but d(B,A)=%.12g", kn[kind], d, dr));
        }
    }
    const double dAB = dub->distance(A, B), dBA = dub->distance(B, A);
    if (kind == 2)
    {
        if (!(d <= dAB + slack && d <= dBA + slack))
            c.failOrKnown("C14/reeds-shepp-exceeds-dubins", vf::fmt("Reeds-Shepp distance %.12g exceeds Dubins %.12g / %.12g", d, dAB, dBA));
    }
    if (kind == 1)
        VCHECK(c, std::fabs(d - std::min(dAB, dBA)) <= slack, "C14/symmetric-dubins-not-min", "symmetric Dubins %.12g, min of the two directions %.12g", d, std::min(dAB, dBA));
    // (ii) the interpolated curve follows the vehicle model and has the reported length
    {
        const int N = 240;
        const double ds = d / N;
        Pose prev = a;
        double chordSum = 0, maxCurv = 0;
        bool reversed = false;
        for (int i = 1; i <= N; ++i)
        {
            double t = i == N ? 1.0 - 1e-9 : (double)i / N;
            sp->interpolate(A, B, t, X);
            Pose p = getPose(X);
            double ch = std::hypot(p.x - prev.x, p.y - prev.y);
            double dth = std::fabs(wrapPi(p.th - prev.th));
            chordSum += ch;
            if (ch > ds * (1 + 1e-6) + 1e-9 * (1 + d))
                c.failOrKnown("C14/curve-jump" + fam, vf::fmt("%s: consecutive curve points (t=%g) are %.9g apart, arc-length step is %.9g", kn[kind], t, ch, ds));
            maxCurv = std::max(maxCurv, dth / std::max(ds, 1e-300));
            if (dth > ds / rho * (1 + 1e-6) + 1e-7)
                c.failOrKnown("C14/curvature" + fam, vf::fmt("%s: heading changes by %.9g over an arc-length step of %.9g (radius %.6g allows %.9g)", kn[kind], dth, ds, rho, ds / rho));
            // direction of travel relative to the heading (mid-heading of the step)
            double mid = prev.th + 0.5 * wrapPi(p.th - prev.th);
            double fwd = (p.x - prev.x) * std::cos(mid) + (p.y - prev.y) * std::sin(mid);
            if (ch > 1e-9 * (1 + d) && fwd < -1e-9 * (1 + d) - 0.5 * ch * (ds / rho))
                reversed = true;
            prev = p;
        }
        if (reversed && kind == 0)
            c.failOrKnown("C14/dubins-reverses", "the Dubins curve moves backwards relative to its heading");
        double endErr = std::hypot(prev.x - b.x, prev.y - b.y) + std::fabs(wrapPi(prev.th - b.th)) * rho;
        c.stat("end-pose-error/rho", endErr / rho);
        if (!(endErr <= 1e-5 * (rho + d) + 2e-9 * d))
            c.failOrKnown("C14/end-pose" + fam, vf::fmt("%s: the curve ends %.9g away from the target pose", kn[kind], endErr));
        // at a cusp (Reeds-Shepp, up to 4) a step that runs forward and then backward has a chord shorter than the step by up to ds
        double minSum = d * (1 - std::pow(ds / rho, 2) / 20) - slack - (kind == 2 ? 5 * ds : 0);
        if (!(chordSum >= minSum && chordSum <= d * (1 + 1e-6) + slack))
            c.failOrKnown("C14/curve-length" + fam, vf::fmt("%s: polyline through the curve measures %.9g, reported distance %.9g", kn[kind], chordSum, d));
    }
    // (v) prefix law
    {
        double t = s.flag() ? 0.5 : s.real(0.05, 0.95);
        sp->interpolate(A, B, t, X);
        double dp = sp->distance(A, X);
        c.stat(std::string("prefix-error/rho:") + kn[kind], std::fabs(dp - t * d) / rho);
        if (!(std::fabs(dp - t * d) <= slack))
        {
            bool explained = false;
            if (kind == 0)
            {
                Pose px = getPose(X);
                for (int k = 0; k < 12 && !explained; ++k)
                {
                    Pose nb = px;
                    double e = (k % 2 ? -1 : 1) * (k < 6 ? 2e-7 : 2e-6) * std::max(1.0, rho);
                    if (k % 6 < 2)
                        nb.th += e / std::max(1.0, rho);
                    else if (k % 6 < 4)
                        nb.x += e;
                    else
                        nb.y += e;
                    setPose(Y, nb);
                    if (std::fabs(sp->distance(A, Y) - t * d) <= slack)
                        explained = true;
                }
            }
            if (explained)
                c.count("unjudged:dubins-eps-discontinuity");
            else
                c.failOrKnown("C14/prefix" + fam, vf::fmt("%s (rho=%.6g): d(A, X_t) = %.12g but t*d(A,B) = %.12g at t=%.6g%s", kn[kind], rho, dp, t * d, t,
                                                          dp > t * d ? " - a curve of that length exists (the prefix), so the reported distance is not the shortest" : ""));
        }
    }
    c.count(ccc ? "dubins-optimal:CCC" : "dubins-optimal:CSC");
    c.nontrivial = cls >= 2 || ccc;
}

#include "../core/runner.h"
