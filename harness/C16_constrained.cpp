// C16 — constrained spaces keep sampled, interpolated and path states on the manifold.
#include "../core/verif.h"
#include "ompl/base/ConstrainedSpaceInformation.h"
#include "ompl/base/Constraint.h"
#include "ompl/base/PlannerTerminationCondition.h"
#include "ompl/base/ProblemDefinition.h"
#include "ompl/base/spaces/RealVectorStateSpace.h"
#include "ompl/base/spaces/constraint/AtlasStateSpace.h"
#include "ompl/base/spaces/constraint/ProjectedStateSpace.h"
#include "ompl/base/spaces/constraint/TangentBundleStateSpace.h"
#include "ompl/geometric/PathGeometric.h"
#include "ompl/geometric/planners/prm/PRM.h"
#include "ompl/geometric/planners/rrt/RRT.h"
#include "ompl/geometric/planners/rrt/RRTConnect.h"
#include "ompl/util/Console.h"
#include "ompl/util/RandomNumbers.h"
#include <atomic>

namespace ob = ompl::base;
namespace og = ompl::geometric;

#define VF_HAS_PROCESS_INIT
void vf::process_init()
{
    ompl::msg::setLogLevel(ompl::msg::LOG_NONE);
}

vf::Config vf::config()
{
    Config c;
    c.property = "C16";
    c.maxLen = 300;
    c.batch = 1;  // the atlas keeps process-wide structures and planners are run: one case per process
    c.caseTimeout = 40;
    c.hardTimeout = 200;
    return c;
}

namespace
{
    enum Man
    {
        SPHERE,       // S^{n-1} in R^n
        TORUS,        // in R^3
        PLANE,        // hyperplane in R^n
        SPHERE_PLANE  // sphere cut by a plane (codimension 2)
    };
    struct ManifoldC : ob::Constraint
    {
        Man kind;
        unsigned n;
        double R, r;                // sphere radius / torus radii
        Eigen::VectorXd normal;     // plane normal (unit)
        double offset;
        bool analytic;
        ManifoldC(Man k, unsigned dim, double tol, bool analyticJ) : ob::Constraint(dim, k == SPHERE_PLANE ? 2 : 1, tol), kind(k), n(dim), R(1), r(0.4), analytic(analyticJ)
        {
        }
        void function(const Eigen::Ref<const Eigen::VectorXd> &x, Eigen::Ref<Eigen::VectorXd> out) const override
        {
            switch (kind)
            {
                case SPHERE:
                    out[0] = x.norm() - R;
                    break;
                case TORUS:
                {
                    double q = std::hypot(x[0], x[1]) - R;
                    out[0] = std::sqrt(q * q + x[2] * x[2]) - r;
                    break;
                }
                case PLANE:
                    out[0] = normal.dot(x) - offset;
                    break;
                default:
                    out[0] = x.norm() - R;
                    out[1] = normal.dot(x) - offset;
            }
        }
        void jacobian(const Eigen::Ref<const Eigen::VectorXd> &x, Eigen::Ref<Eigen::MatrixXd> out) const override
        {
            if (!analytic)
            {
                ob::Constraint::jacobian(x, out);  // numeric default
                return;
            }
            switch (kind)
            {
                case SPHERE:
                    out = x.transpose().normalized();
                    break;
                case TORUS:
                {
                    double h = std::hypot(x[0], x[1]), q = h - R, d = std::sqrt(q * q + x[2] * x[2]);
                    out(0, 0) = q / d * x[0] / h;
                    out(0, 1) = q / d * x[1] / h;
                    out(0, 2) = x[2] / d;
                    break;
                }
                case PLANE:
                    out = normal.transpose();
                    break;
                default:
                    out.row(0) = x.transpose().normalized();
                    out.row(1) = normal.transpose();
            }
        }
        // a point on the manifold from generated parameters (harness-owned parameterisation)
        Eigen::VectorXd point(vf::Src &s) const
        {
            Eigen::VectorXd x(n);
            switch (kind)
            {
                case SPHERE:
                    for (unsigned i = 0; i < n; ++i)
                        x[i] = s.real(-1, 1);
                    if (x.norm() < 1e-3)
                        x[0] = 1;
                    x *= R / x.norm();
                    break;
                case TORUS:
                {
                    double u = s.real(-3.14, 3.14), v = s.real(-3.14, 3.14);
                    x[0] = (R + r * std::cos(v)) * std::cos(u);
                    x[1] = (R + r * std::cos(v)) * std::sin(u);
                    x[2] = r * std::sin(v);
                    break;
                }
                case PLANE:
                    for (unsigned i = 0; i < n; ++i)
                        x[i] = s.real(-1.5, 1.5);
                    x -= (normal.dot(x) - offset) * normal;
                    break;
                default:
                {
                    // circle: centre offset*normal, radius sqrt(R^2 - offset^2), in the plane orthogonal to normal
                    Eigen::VectorXd t(n);
                    for (unsigned i = 0; i < n; ++i)
                        t[i] = s.real(-1, 1);
                    t -= normal.dot(t) * normal;
                    if (t.norm() < 1e-3)
                    {
                        t = Eigen::VectorXd::Unit(n, 0);
                        t -= normal.dot(t) * normal;
                        if (t.norm() < 1e-3)
                        {
                            t = Eigen::VectorXd::Unit(n, 1);
                            t -= normal.dot(t) * normal;
                        }
                    }
                    t.normalize();
                    x = offset * normal + std::sqrt(R * R - offset * offset) * t;
                }
            }
            return x;
        }
    };
    double residual(const ManifoldC &m, const Eigen::VectorXd &x)
    {
        Eigen::VectorXd f(m.getCoDimension());
        m.function(x, f);
        return f.norm();
    }
}  // namespace

void vf::run_case(Src &s, Ctx &c)
{
    ompl::RNG::setSeed(1 + (unsigned)s.u(0, 1000000));
    Man mk = (Man)s.weighted({5, 3, 2, 3});
    unsigned n = mk == TORUS ? 3 : (unsigned)s.in(3, 5);
    double tol = s.flag() ? 1e-4 : s.logreal(1e-7, 1e-3);
    bool analytic = s.chance(170);
    auto con = std::make_shared<ManifoldC>(mk, n, tol, analytic);
    con->R = mk == TORUS ? s.real(1.0, 2.0) : s.real(0.7, 2.0);
    con->r = s.real(0.25, 0.6);
    con->normal = Eigen::VectorXd(n);
    for (unsigned i = 0; i < n; ++i)
        con->normal[i] = s.real(-1, 1);
    if (con->normal.norm() < 1e-2)
        con->normal[0] = 1;
    con->normal.normalize();
    con->offset = mk == SPHERE_PLANE ? con->R * s.real(-0.6, 0.6) : s.real(-0.5, 0.5);
    auto amb = std::make_shared<ob::RealVectorStateSpace>(n);
    amb->setBounds(-3.5, 3.5);
    size_t sk = s.weighted({4, 4, 3});
    const char *sn[] = {"Projected", "Atlas", "TangentBundle"};
    const char *mn[] = {"sphere", "torus", "hyperplane", "sphere-cut-by-plane"};
    std::shared_ptr<ob::ConstrainedStateSpace> css;
    ob::ConstrainedSpaceInformationPtr csi;
    if (sk == 0)
    {
        css = std::make_shared<ob::ProjectedStateSpace>(amb, con);
        csi = std::make_shared<ob::ConstrainedSpaceInformation>(css);
    }
    else if (sk == 1)
    {
        css = std::make_shared<ob::AtlasStateSpace>(amb, con);
        csi = std::make_shared<ob::ConstrainedSpaceInformation>(css);
    }
    else
    {
        css = std::make_shared<ob::TangentBundleStateSpace>(amb, con);
        csi = std::make_shared<ob::TangentBundleSpaceInformation>(css);
    }
    double delta = s.flag() ? 0.05 : s.logreal(0.02, 0.3);
    double lambda = s.flag() ? 2.0 : s.real(1.2, 5);
    css->setDelta(delta);
    css->setLambda(lambda);
    // obstacle: a cap around a generated manifold point
    Eigen::VectorXd capC = con->point(s);
    double capR = s.flag() ? 0 : s.real(0.1, 0.5);
    csi->setStateValidityChecker(
        [capC, capR](const ob::State *st)
        {
            const Eigen::Map<Eigen::VectorXd> &x = *st->as<ob::ConstrainedStateSpace::StateType>();
            return capR <= 0 || (x - capC).norm() > capR;
        });
    try
    {
        css->setup();
        csi->setup();
    }
    catch (const ompl::Exception &e)
    {
        throw Skip{std::string("setup rejected: ") + e.what()};
    }
    // A third of the cases (decided by the already decoded delta, no choice byte) tighten lambda once more *after* setup(), the order in which
    // the library's own demos call the setters: whatever a space derives from delta and lambda must follow the later call.
    if ((uint64_t)(delta * 1e7) % 3 == 0)
    {
        lambda = 1.0 + 0.05 * (lambda - 1.0);  // 1.01 .. 1.2: close to the stretch that projecting a step onto a curved manifold causes
        css->setLambda(lambda);
        c.count("configuration:lambda-tightened-after-setup");
    }
    c.note("%s space on %s in R^%u (codim %u, %s Jacobian), tol=%.3g delta=%.4g lambda=%.3g, cap radius %.3g\n", sn[sk], mn[mk], n, con->getCoDimension(),
           analytic ? "analytic" : "numeric", tol, delta, lambda, capR);
    c.count(std::string("space:") + sn[sk]);
    c.count(std::string("manifold:") + mn[mk]);
    const std::string key = std::string("/") + sn[sk];
    auto vec = [](const ob::State *st) -> Eigen::VectorXd { return *st->as<ob::ConstrainedStateSpace::StateType>(); };
    auto onManifold = [&](const ob::State *st, const char *what, const std::string &k)
    {
        Eigen::VectorXd x = vec(st);
        double res = residual(*con, x);
        c.stat(std::string("residual/tolerance:") + what, res / tol);
        std::string cause;
        if (k == "sampler" && !(res <= tol * (1 + 1e-9)))
        {
            // attribute: clamped onto the ambient box after projection, or the Newton projection did not converge
            bool onBox = false;
            for (unsigned i = 0; i < n; ++i)
                if (std::fabs(std::fabs(x[i]) - 3.5) < 1e-12)
                    onBox = true;
            cause = onBox ? "(clamped-to-ambient-bounds)" : "(projection-not-converged)";
        }
        if (!(res <= tol * (1 + 1e-9)) || !x.allFinite())
            c.failOrKnown("C16/off-manifold/" + k + key + cause,
                          vf::fmt("%s space, %s: %s state violates the constraint: |F(x)| = %.6g > tolerance %.6g", sn[sk], mn[mk], what, res, tol));
    };
    ob::State *A = css->allocState(), *B = css->allocState(), *X = css->allocState();
    struct G
    {
        std::shared_ptr<ob::ConstrainedStateSpace> sp;
        ob::State *s[3];
        ~G()
        {
            for (auto *x : s)
                sp->freeState(x);
        }
    } guard{css, {A, B, X}};
    auto setVec = [](ob::State *st, const Eigen::VectorXd &v) { st->as<ob::ConstrainedStateSpace::StateType>()->copy(v); };
    // on-manifold pair: near, far or antipodal
    Eigen::VectorXd pa = con->point(s), pb;
    size_t pc = s.weighted({3, 4, 2});
    if (pc == 0)
    {
        // near: a small step projected back with the constraint's own projection
        pb = pa;
        for (unsigned i = 0; i < n; ++i)
            pb[i] += s.real(-1, 1) * 2 * delta;
        con->project(pb);
    }
    else if (pc == 1)
        pb = con->point(s);
    else
    {
        pb = mk == PLANE ? con->point(s) : Eigen::VectorXd(-pa);
        if (mk == SPHERE_PLANE || mk == TORUS)
            con->project(pb);
    }
    if (residual(*con, pa) > tol || residual(*con, pb) > tol)
        throw Skip{"could not construct an on-manifold pair"};
    setVec(A, pa);
    setVec(B, pb);
    if (sk != 0)
    {
        try
        {
            css->as<ob::AtlasStateSpace>()->anchorChart(A);
            css->as<ob::AtlasStateSpace>()->anchorChart(B);
        }
        catch (const ompl::Exception &e)
        {
            throw Skip{std::string("anchorChart rejected: ") + e.what()};
        }
    }
    const double ambientDist = (pa - pb).norm();
    c.note(" pair class %s, ambient distance %.4g\n", pc == 0 ? "near" : pc == 1 ? "independent" : "antipodal", ambientDist);
    // --- samplers
    {
        auto smp = css->allocStateSampler();
        for (int k = 0; k < 6; ++k)
        {
            try
            {
                size_t what = s.weighted({3, 3, 3});
                if (what == 0)
                    smp->sampleUniform(X);
                else if (what == 1)
                {
                    // from the step size up to many times the manifold's curvature radius (where every projection attempt may fail)
                    size_t dk = s.weighted({3, 3, 2});
                    double dist = dk == 0 ? delta : dk == 1 ? s.real(0.01, 2) : s.logreal(2, 60);
                    c.count(dk == 2 ? "sampler-distance:2..60" : "sampler-distance:<=2");
                    smp->sampleUniformNear(X, A, dist);
                }
                else
                {
                    size_t dk = s.weighted({3, 3, 2});
                    double sd = dk == 0 ? delta : dk == 1 ? s.real(0.01, 1) : s.logreal(1, 30);
                    c.count(dk == 2 ? "sampler-stddev:1..30" : "sampler-stddev:<=1");
                    smp->sampleGaussian(X, A, sd);
                }
                onManifold(X, what == 0 ? "uniform-sample" : what == 1 ? "near-sample" : "gaussian-sample", "sampler");
            }
            catch (const ompl::Exception &e)
            {
                c.count("sampler:exception(clean)");
            }
        }
    }
    // --- interpolation
    for (int k = 0; k < 4; ++k)
    {
        double t = s.weighted({3, 1, 1, 1}) == 0 ? s.unit() : (k == 1 ? 0.0 : k == 2 ? 1.0 : 0.5);
        try
        {
            css->interpolate(A, B, t, X);
            onManifold(X, "interpolated", "interpolate");
        }
        catch (const ompl::Exception &)
        {
            c.count("interpolate:exception(clean)");
        }
    }
    // --- discrete geodesic (projection- and atlas-based spaces: on-manifold, step bound, reach bound)
    bool geoOk = false;
    size_t geoLen = 0;
    {
        std::vector<ob::State *> geo;
        try
        {
            geoOk = css->discreteGeodesic(A, B, s.flag(), &geo);
        }
        catch (const ompl::Exception &)
        {
            c.count("geodesic:exception(clean)");
        }
        geoLen = geo.size();
        struct FG
        {
            std::shared_ptr<ob::ConstrainedStateSpace> sp;
            std::vector<ob::State *> *g;
            ~FG()
            {
                for (auto *x : *g)
                    sp->freeState(x);
            }
        } fg{css, &geo};
        if (geoOk && sk != 2)
        {
            for (size_t i = 0; i < geo.size(); ++i)
            {
                onManifold(geo[i], "geodesic", "geodesic");
                if (i > 0)
                {
                    double step = (vec(geo[i]) - vec(geo[i - 1])).norm();
                    c.stat("geodesic-step/(lambda*delta)", step / (lambda * delta));
                    VCHECK(c, step <= lambda * delta * (1 + 1e-9) + 1e-12, "C16/geodesic-step" + key, "%s space: consecutive geodesic states are %.6g apart, bound lambda*delta = %.6g", sn[sk],
                           step, lambda * delta);
                }
            }
            if (!geo.empty())
            {
                double reach = (vec(geo.back()) - pb).norm();
                VCHECK(c, reach <= delta * (1 + 1e-9) + 1e-12, "C16/geodesic-reach" + key, "%s space: a successful geodesic ends %.6g from the target, step size delta = %.6g", sn[sk], reach,
                       delta);
            }
        }
        c.count(geoOk ? "geodesic:success" : "geodesic:failed");
    }
    // --- a planner on top (share of the cases; planner paths consist of sampler / interpolation outputs)
    bool planned = false;
    size_t pathStates = 0;
    if (s.chance(100) && csi->isValid(A) && csi->isValid(B))
    {
        auto pdef = std::make_shared<ob::ProblemDefinition>(csi);
        pdef->setStartAndGoalStates(A, B, 0.05);
        ob::PlannerPtr pl;
        size_t pk = s.weighted({3, 3, 2});
        if (pk == 0)
            pl = std::make_shared<og::RRT>(csi);
        else if (pk == 1)
            pl = std::make_shared<og::RRTConnect>(csi);
        else
            pl = std::make_shared<og::PRM>(csi);
        auto calls = std::make_shared<std::atomic<long>>(0);
        long lim = s.in(100, 1500);
        volatile long *pr = c.progress;
        try
        {
            pl->setProblemDefinition(pdef);
            pl->setup();
            ob::PlannerStatus st = pl->solve(ob::PlannerTerminationCondition(
                [calls, lim, pr]()
                {
                    if (pr)
                        *pr = *pr + 1;
                    return calls->fetch_add(1) >= lim;
                }));
            if (st && pdef->getSolutionPath())
            {
                auto *pg = static_cast<og::PathGeometric *>(pdef->getSolutionPath().get());
                planned = true;
                pathStates = pg->getStateCount();
                for (size_t i = 0; i < pg->getStateCount(); ++i)
                    onManifold(pg->getState(i), "solution-path", "planner");
                VCHECK(c, css->equalStates(pg->getState(0), A), "C16/planner-start" + key, "solution path does not start at the start state");
            }
        }
        catch (const ompl::Exception &)
        {
            c.count("planner:exception(clean)");
        }
        c.count(planned ? "planner:solved" : "planner:no-solution");
    }
    (void)geoLen;
    c.nontrivial = ambientDist > 5 * delta || con->getCoDimension() == 2 || (planned && pathStates >= 3);
}

#include "../core/runner.h"
