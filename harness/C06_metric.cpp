// C06 — state-space distances obey the metric laws each space claims.
#include "../gen/spaces.h"
#include "ompl/util/Console.h"

namespace ob = ompl::base;
using namespace gen;

#define VF_HAS_PROCESS_INIT
void vf::process_init()
{
    ompl::msg::setLogLevel(ompl::msg::LOG_NONE);
}

vf::Config vf::config()
{
    Config c;
    c.property = "C06";
    c.maxLen = 600;
    c.batch = 2000;
    return c;
}

namespace
{
    // true when some Reeds-Shepp node of the space sees the two states closer than 5% of its turning radius (either direction)
    bool rsNear(const Desc &d, const ob::State *a, const ob::State *b)
    {
        bool hit = false;
        walkNodes2(d, a, b,
                   [&](const Desc &n, const ob::State *x, const ob::State *y)
                   {
                       if (n.kind == REEDSSHEPP && std::min(n.space->distance(x, y), n.space->distance(y, x)) < 0.05 * n.p1)
                           hit = true;
                   });
        return hit;
    }
    // slack for laws that combine k distance evaluations (DESIGN section 3)
    double slack(const Desc &d, int k, double magnitude)
    {
        double t = 64 * 2.2e-16 * std::max(coordScale(d), magnitude) * weightSum(d) * k;
        if (d.contains(SO3))
            t += k * 4.5e-5 * weightSum(d);
        if (d.contains(SPHERE))
        {
            double r = 1;
            std::function<void(const Desc &)> rec = [&](const Desc &x)
            {
                if (x.kind == SPHERE)
                    r = std::max(r, x.p1);
                for (auto &s : x.subs)
                    rec(s);
            };
            rec(d);
            t += k * 2e-3 * r * weightSum(d);
        }
        if (d.contains(DUBINS) || d.contains(REEDSSHEPP))
            t += k * 1e-5 * (1 + magnitude) * weightSum(d);
        return t;
    }
    std::string familyKey(const Desc &d, const char *law)
    {
        const char *k = d.contains(DUBINS) ? "Dubins" : d.contains(REEDSSHEPP) ? "ReedsShepp" : d.contains(SPHERE) ? "Sphere" : d.contains(MOBIUS) ? "Mobius" :
                        d.contains(KLEIN) ? "KleinBottle" : kindName(d.kind);
        return std::string("C06/") + law + "/" + k;
    }
    // The Klein bottle glues u=0 to u=pi with v reversed, the Moebius strip glues u=-pi to u=+pi with v negated. Two states
    // on (or within rounding of) opposite sides of the glue line can be one point of the surface although their coordinates
    // differ by O(1): distance 0 is then correct while equalStates() compares representations. Such pairs are exempt from the
    // positivity clause (same reasoning as angles one ulp apart across +-pi; observation, not a finding).
    bool gluedSeam(const Desc &d, const ob::State *a, const ob::State *b)
    {
        if (!d.contains(KLEIN) && !d.contains(MOBIUS))
            return false;
        bool glued = false;
        std::function<void(const Desc &, const ob::State *, const ob::State *)> rec = [&](const Desc &q, const ob::State *x, const ob::State *y)
        {
            if (q.kind == WRAPPER)
                return rec(q.subs[0], x->as<ob::WrapperStateSpace::StateType>()->getState(), y->as<ob::WrapperStateSpace::StateType>()->getState());
            if (q.kind == KLEIN)
            {
                double du = std::fabs(x->as<ob::KleinBottleStateSpace::StateType>()->getU() - y->as<ob::KleinBottleStateSpace::StateType>()->getU());
                if (PI - du < 1e-9)
                    glued = true;
            }
            else if (q.kind == MOBIUS)
            {
                double du = std::fabs(x->as<ob::MobiusStateSpace::StateType>()->getU() - y->as<ob::MobiusStateSpace::StateType>()->getU());
                if (2 * PI - du < 1e-9)
                    glued = true;
            }
            else if (q.compoundLayout())
                for (size_t i = 0; i < q.subs.size(); ++i)
                    rec(q.subs[i], static_cast<const ob::CompoundState *>(x)->components[i], static_cast<const ob::CompoundState *>(y)->components[i]);
        };
        rec(d, a, b);
        return glued;
    }
    // Spaces built only from R^n, SO(2), SO(3), time, discrete, SE(2), SE(3) and positively weighted compounds / wrappers of those: there
    // the library's own equalStates() and distance() are exactly consistent (read from the code: every leaf distance is 0 only for
    // representations equalStates() accepts, and a weighted sum of non-negative terms is 0 only if every term is), so the positivity
    // clause can be judged with the library's own notion of "equal" down to the last bit.
    bool exactEqualityDomain(const Desc &d)
    {
        switch (d.kind)
        {
            case RV:
            case SO2:
            case SO3:
            case TIME:
            case DISCRETE:
                return true;
            case SE2:
            case SE3:
            case COMPOUND:
            case WRAPPER:
                for (size_t i = 0; i < d.subs.size(); ++i)
                    if (!exactEqualityDomain(d.subs[i]) || (i < d.w.size() && !(d.w[i] > 0)))
                        return false;
                return true;
            default:
                return false;
        }
    }
    // pi and -pi are two in-bounds representations of one angle (distance 0, equalStates false): representation, not a finding
    bool so2SeamPair(const Desc &d, const ob::State *a, const ob::State *b)
    {
        std::vector<double> va, vb;
        walk(d, a, 1.0, [&](const Desc &l, const ob::State *x, double) { if (l.kind == SO2) va.push_back(x->as<ob::SO2StateSpace::StateType>()->value); });
        walk(d, b, 1.0, [&](const Desc &l, const ob::State *x, double) { if (l.kind == SO2) vb.push_back(x->as<ob::SO2StateSpace::StateType>()->value); });
        for (size_t i = 0; i < va.size() && i < vb.size(); ++i)
            if (std::fabs(va[i] - vb[i]) > 6)
                return true;
        return false;
    }
    const ob::State *unwrap(const Desc *&d, const ob::State *s)
    {
        while (d->kind == WRAPPER)
        {
            s = s->as<ob::WrapperStateSpace::StateType>()->getState();
            d = &d->subs[0];
        }
        return s;
    }
    // recursive check that every weighted-sum compound node really is the weighted sum of its components
    void checkSum(vf::Ctx &c, const Desc &dd, const ob::State *a, const ob::State *b, const Desc &top)
    {
        const Desc *d = &dd;
        a = unwrap(d, a);
        const Desc *d2 = &dd;
        b = unwrap(d2, b);
        if (!(d->kind == COMPOUND || d->kind == SE2 || d->kind == SE3))
            return;
        auto *ca = static_cast<const ob::CompoundState *>(a);
        auto *cb = static_cast<const ob::CompoundState *>(b);
        double sum = 0;
        for (size_t i = 0; i < d->subs.size(); ++i)
        {
            sum += d->w[i] * d->subs[i].space->distance(ca->components[i], cb->components[i]);
            checkSum(c, d->subs[i], ca->components[i], cb->components[i], top);
        }
        double got = d->space->distance(a, b);
        VCHECK(c, std::fabs(got - sum) <= 1e-12 * (1 + std::fabs(sum)), "C06/compound-sum",
               "%s: distance %.17g but weighted sum of component distances %.17g", d->name().c_str(), got, sum);
    }
}  // namespace

void vf::run_case(Src &s, Ctx &c)
{
    SpaceOpts o;
    o.ctx = &c;
    Desc d = genSpace(s, o);
    setupOrSkip(d, c);
    auto &sp = d.space;
    StateHolder h(sp);
    ob::State *a = h.alloc(), *b = h.alloc(), *x = h.alloc();
    genStateInto(s, d, a);
    const char *cb = genRelatedInto(s, d, a, b);
    const char *cx = s.flag() ? genRelatedInto(s, d, a, x) : genRelatedInto(s, d, b, x);
    c.note("%s\n a=%s\n b=%s (%s)\n c=%s (%s)\n", d.name().c_str(), show(d, a).c_str(), show(d, b).c_str(), cb, show(d, x).c_str(), cx);
    c.count(std::string("space:") + kindName(d.kind));
    c.count(std::string("pair:") + cb);
    if (d.depth == 0 && d.kind == COMPOUND)
    {
        int md = 0;
        std::function<void(const Desc &)> rec = [&](const Desc &q)
        {
            md = std::max(md, q.depth);
            for (auto &t : q.subs)
                rec(t);
        };
        rec(d);
        c.count("compound-depth:" + std::to_string(md));
    }
    // all three are in bounds by construction (modulo the library's own satisfiesBounds margin)
    bool inb = sp->satisfiesBounds(a) && sp->satisfiesBounds(b) && sp->satisfiesBounds(x);
    if (!inb)
    {
        c.count("generated-out-of-bounds(harness)");
        throw Skip{"generator produced an out-of-bounds state"};
    }
    double ext = sp->getMaximumExtent();
    const ob::State *st[3] = {a, b, x};
    double D[3][3];
    for (int i = 0; i < 3; ++i)
        for (int j = 0; j < 3; ++j)
        {
            D[i][j] = sp->distance(st[i], st[j]);
            VCHECK(c, std::isfinite(D[i][j]), familyKey(d, "finite"), "%s: distance is %g", d.name().c_str(), D[i][j]);
            VCHECK(c, D[i][j] >= 0, "C06/non-negative", "%s: distance %.17g < 0", d.name().c_str(), D[i][j]);
        }
    double mag = std::max({D[0][1], D[1][2], D[0][2]});
    for (int i = 0; i < 3; ++i)
        VCHECK(c, D[i][i] == 0 || D[i][i] <= slack(d, 1, 0) * 1e-3, "C06/self-distance", "%s: d(s,s) = %.17g", d.name().c_str(), D[i][i]);
    bool coarse = d.contains(SPHERE) || d.contains(DUBINS) || d.contains(REEDSSHEPP);
    const bool exactDomain = exactEqualityDomain(d);
    double factor = coarse ? 1e-5 / (64 * 2.2e-16) : 10;
    for (int i = 0; i < 3; ++i)
        for (int j = 0; j < 3; ++j)
        {
            if (i == j)
                continue;
            if (!sp->equalStates(st[i], st[j]) && separated(d, st[i], st[j], factor) && !gluedSeam(d, st[i], st[j]))
                VCHECK(c, D[i][j] > 0, "C06/positivity", "%s: distance 0 between states that differ (beyond numerical resolution)", d.name().c_str());
            if (exactDomain && D[i][j] == 0 && !sp->equalStates(st[i], st[j]) && !so2SeamPair(d, st[i], st[j]))
            {
                c.count("positivity:exact-domain-zero-distance-pair");
                VCHECK(c, false, "C06/positivity-vs-equalStates", "%s: distance is exactly 0 between two states the space itself reports as not equal (pair classes %s / %s)", d.name().c_str(), cb,
                       cx);
            }
            if (exactDomain && D[i][j] == 0)
                c.count("positivity:zero-distance-pairs-judged-with-equalStates");
            double e = slack(d, 1, mag);
            if (!(D[i][j] <= ext + e))
                c.failOrKnown(familyKey(d, "extent"), vf::fmt("%s: distance %.17g exceeds getMaximumExtent() = %.17g", d.name().c_str(), D[i][j], ext));
        }
    if (sp->hasSymmetricDistance())
        for (int i = 0; i < 3; ++i)
            for (int j = i + 1; j < 3; ++j)
            {
                double e = slack(d, 2, mag);
                c.stat("symmetry-gap", std::fabs(D[i][j] - D[j][i]));
                if (!(std::fabs(D[i][j] - D[j][i]) <= e))
                {
                    // Reeds-Shepp known finding: for poses closer than 5% of the turning radius the solver's answer depends on the
                    // direction (it misses the short curve one way). Keyed separately so that asymmetry between ordinary poses stays loud.
                    std::string key = familyKey(d, "symmetry");
                    if (d.contains(REEDSSHEPP) && rsNear(d, st[i], st[j]))
                        key += "(poses-closer-than-0.05-rho)";
                    c.failOrKnown(key, vf::fmt("%s: d(a,b)=%.17g, d(b,a)=%.17g", d.name().c_str(), D[i][j], D[j][i]));
                }
            }
    if (sp->isMetricSpace())
    {
        double e = slack(d, 3, mag);
        for (int i = 0; i < 3; ++i)
        {
            int j = (i + 1) % 3, k = (i + 2) % 3;
            double excess = D[i][k] - (D[i][j] + D[j][k]);
            c.stat(std::string("triangle-excess:") + (d.contains(SO3) ? "withSO3" : coarse ? "coarse" : "plain"), excess);
            std::string tkey = familyKey(d, "triangle");
            if (d.contains(REEDSSHEPP) && (rsNear(d, st[i], st[j]) || rsNear(d, st[j], st[k]) || rsNear(d, st[i], st[k])))
                tkey += "(poses-closer-than-0.05-rho)";  // same known root cause as the symmetry key
            if (!(excess <= e))
                c.failOrKnown(tkey, vf::fmt("%s claims isMetricSpace() but d(a,c)=%.17g > d(a,b)+d(b,c)=%.17g+%.17g (excess %.3g)",
                                                                d.name().c_str(), D[i][k], D[i][j], D[j][k], excess));
        }
        c.count("metric-claimed");
    }
    else
        c.count("metric-not-claimed");
    checkSum(c, d, a, b, d);
    checkSum(c, d, b, x, d);
    c.nontrivial = std::string(cb) != "independent" || std::string(cx) != "independent";
}

#include "../core/runner.h"
