// C07 — interpolation traces one consistent, bounded curve between its endpoints.
#include "../gen/spaces.h"
#include "ompl/util/Console.h"

namespace ob = ompl::base;
using namespace gen;

#define VF_HAS_PROCESS_INIT
void vf::process_init()
{
    ompl::msg::setLogLevel(ompl::msg::LOG_NONE);
}

vf::Config vf::config()
{
    Config c;
    c.property = "C07";
    c.maxLen = 600;
    c.batch = 2000;
    return c;
}

namespace
{
    bool geodesicList(const Desc &d)
    {
        switch (d.kind)
        {
            case RV:
            case SO2:
            case SO3:
            case TIME:
                return true;
            case SE2:
            case SE3:
            case TORUS:
            case COMPOUND:
            case WRAPPER:
                for (auto &s : d.subs)
                    if (!geodesicList(s))
                        return false;
                return true;
            default:
                return false;
        }
    }
    double genT(vf::Src &s)
    {
        switch (s.weighted({6, 2, 2, 2, 1, 1}))
        {
            case 0:
                return s.unit();
            case 1:
                return 0;
            case 2:
                return 1;
            case 3:
                return 0.5;
            case 4:
                return s.logreal(1e-12, 1e-3);
            default:
                return 1 - s.logreal(1e-12, 1e-3);
        }
    }
    bool hasSymDubins(const Desc &d)
    {
        if (d.kind == DUBINS && d.symmetric)
            return true;
        for (auto &s : d.subs)
            if (hasSymDubins(s))
                return true;
        return false;
    }
    // Klein bottle, glued route (|du| > pi/2) with the v coordinates exactly antipodal after the reversal: two geodesics tie and
    // the library's before-crossing and after-crossing branches break the tie in opposite directions (known finding).
    bool kleinAntipodalAcrossGlue(const Desc &d, const ob::State *a, const ob::State *b)
    {
        bool hit = false;
        std::function<void(const Desc &, const ob::State *, const ob::State *)> rec = [&](const Desc &q, const ob::State *x, const ob::State *y)
        {
            if (q.kind == WRAPPER)
                return rec(q.subs[0], x->as<ob::WrapperStateSpace::StateType>()->getState(), y->as<ob::WrapperStateSpace::StateType>()->getState());
            if (q.kind == KLEIN)
            {
                auto *p = x->as<ob::KleinBottleStateSpace::StateType>();
                auto *r = y->as<ob::KleinBottleStateSpace::StateType>();
                if (std::fabs(p->getU() - r->getU()) > PI / 2 - 1e-9)
                {
                    double v2 = r->getV() > 0 ? PI - r->getV() : -PI - r->getV();
                    if (std::fabs(std::fabs(wrapPi(v2 - p->getV())) - PI) < 1e-6)
                        hit = true;
                }
            }
            else if (q.compoundLayout())
                for (size_t i = 0; i < q.subs.size(); ++i)
                    rec(q.subs[i], static_cast<const ob::CompoundState *>(x)->components[i], static_cast<const ob::CompoundState *>(y)->components[i]);
        };
        rec(d, a, b);
        return hit;
    }
    // Dubins / Reeds-Shepp treat poses closer than DUBINS_EPS / RS_EPS = 1e-6 (in units of the turning radius) as joined by a
    // straight piece whatever the direction: below that grain the "curve" is not a vehicle path at all. Pairs whose planar
    // separation is below 1e-5*max(1,rho) are therefore exempt from the re-parameterisation clause (numerical resolution).
    bool dubinsBelowEps(const Desc &d, const ob::State *a, const ob::State *b)
    {
        bool hit = false;
        std::function<void(const Desc &, const ob::State *, const ob::State *)> rec = [&](const Desc &q, const ob::State *x, const ob::State *y)
        {
            if (q.kind == WRAPPER)
                return rec(q.subs[0], x->as<ob::WrapperStateSpace::StateType>()->getState(), y->as<ob::WrapperStateSpace::StateType>()->getState());
            if (q.kind == DUBINS || q.kind == REEDSSHEPP)
            {
                auto *p = x->as<ob::SE2StateSpace::StateType>();
                auto *r = y->as<ob::SE2StateSpace::StateType>();
                if (std::hypot(p->getX() - r->getX(), p->getY() - r->getY()) < 1e-5 * std::max(1.0, q.p1))
                    hit = true;
            }
            else if (q.compoundLayout())
                for (size_t i = 0; i < q.subs.size(); ++i)
                    rec(q.subs[i], static_cast<const ob::CompoundState *>(x)->components[i], static_cast<const ob::CompoundState *>(y)->components[i]);
        };
        rec(d, a, b);
        return hit;
    }
    const char *famName(const Desc &d)
    {
        return d.contains(DUBINS) ? (hasSymDubins(d) ? "Dubins(symmetric)" : "Dubins") : d.contains(REEDSSHEPP) ? "ReedsShepp" :
               d.contains(KLEIN) ? "KleinBottle" : d.contains(MOBIUS) ? "Mobius" : d.contains(SPHERE) ? "Sphere" : kindName(d.kind);
    }
    // is `got` the same point as `want` within the stated tolerances? (leaf-wise; glued spaces may also agree by distance)
    std::string sameState(const Desc &d, const ob::State *got, const ob::State *want, double rvTol, double angTol, double quatTol, int discTol)
    {
        LeafDiff ld = leafDiff(d, got, want);
        if (ld.nan)
            return "NaN/inf coordinate";
        std::string bad;
        if (ld.rv > rvTol)
            bad = vf::fmt("R^n coordinate off by %.3g (relative)", ld.rv);
        else if (ld.time > rvTol)
            bad = vf::fmt("time off by %.3g (relative)", ld.time);
        else if (ld.ang > angTol)
            bad = vf::fmt("angle off by %.3g", ld.ang);
        else if (ld.quat > quatTol)
            bad = vf::fmt("rotation off by %.3g rad (quaternion arc)", ld.quat);
        else if (ld.disc > discTol)
            bad = vf::fmt("discrete value off by %d", ld.disc);
        if (!bad.empty() && (d.contains(KLEIN) || d.contains(MOBIUS)))
        {
            // a glued surface has two representations of points on the glue line
            double dist = d.space->distance(got, want);
            if (dist <= 1e-7 * weightSum(d))
                return "";
        }
        return bad;
    }
}  // namespace

void vf::run_case(Src &s, Ctx &c)
{
    SpaceOpts o;
    o.ctx = &c;
    Desc d = genSpace(s, o);
    setupOrSkip(d, c);
    auto &sp = d.space;
    StateHolder h(sp);
    ob::State *from = h.alloc(), *to = h.alloc(), *out = h.alloc(), *out2 = h.alloc(), *mid = h.alloc(), *alias = h.alloc();
    genStateInto(s, d, from);
    const char *rel = genRelatedInto(s, d, from, to);
    if (!(sp->satisfiesBounds(from) && sp->satisfiesBounds(to)))
    {
        c.count("generated-out-of-bounds(harness)");
        throw Skip{"generator produced an out-of-bounds state"};
    }
    c.note("%s\n from=%s\n to  =%s (%s)\n", d.name().c_str(), show(d, from).c_str(), show(d, to).c_str(), rel);
    c.count(std::string("space:") + kindName(d.kind));
    c.count(std::string("pair:") + rel);
    const bool dub = d.contains(DUBINS) || d.contains(REEDSSHEPP);
    const double full = sp->distance(from, to);
    VCHECK(c, std::isfinite(full), std::string("C07/finite/") + famName(d), "distance(from,to) not finite");
    // tolerances (DESIGN section 3)
    double rvTol = dub ? 1e-5 * (1 + full) : 1e-9;
    double angTol = dub ? 1e-5 * (1 + full) : 1e-9;
    double quatTol = 1e-4;  // SO(3) grain: below acos(1-1e-9)=4.47e-5 the library treats rotations as equal

    // 1. endpoints
    sp->interpolate(from, to, 0.0, out);
    {
        std::string bad = sameState(d, out, from, rvTol, angTol, quatTol, 0);
        VCHECK(c, bad.empty(), std::string("C07/endpoint0/") + famName(d), "%s: interpolate(t=0) is not the start: %s; got %s", d.name().c_str(),
               bad.c_str(), show(d, out).c_str());
    }
    sp->interpolate(from, to, 1.0, out);
    {
        std::string bad = sameState(d, out, to, rvTol, angTol, quatTol, 0);
        VCHECK(c, bad.empty(), std::string("C07/endpoint1/") + famName(d), "%s: interpolate(t=1) is not the target: %s; got %s", d.name().c_str(),
               bad.c_str(), show(d, out).c_str());
    }
    int nt = s.in(1, 4);
    for (int k = 0; k < nt; ++k)
    {
        double t = genT(s);
        c.note(" t=%.17g", t);
        sp->interpolate(from, to, t, out);
        VCHECK(c, allFinite(d, out), std::string("C07/finite/") + famName(d), "%s: interpolate(t=%.17g) has a non-finite coordinate: %s", d.name().c_str(),
               t, show(d, out).c_str());
        // 2. bounds
        std::string bv = boundsViolation(d, out);
        if (!bv.empty() && !sp->satisfiesBounds(out))
            c.failOrKnown(std::string("C07/bounds/") + famName(d), vf::fmt("%s: interpolate(t=%.17g) leaves the bounds: %s", d.name().c_str(), t, bv.c_str()));
        // 3. aliasing: output aliases from / to
        std::string ref = serialImage(sp, out);
        sp->copyState(alias, from);
        sp->interpolate(alias, to, t, alias);
        VCHECK(c, serialImage(sp, alias) == ref, std::string("C07/alias-from/") + famName(d),
               "%s: interpolate(t=%.17g) with output aliasing 'from' gives %s, non-aliased %s", d.name().c_str(), t, show(d, alias).c_str(),
               show(d, out).c_str());
        sp->copyState(alias, to);
        sp->interpolate(from, alias, t, alias);
        VCHECK(c, serialImage(sp, alias) == ref, std::string("C07/alias-to/") + famName(d),
               "%s: interpolate(t=%.17g) with output aliasing 'to' gives %s, non-aliased %s", d.name().c_str(), t, show(d, alias).c_str(),
               show(d, out).c_str());
        // 5. geodesic proportionality
        if (geodesicList(d))
        {
            double dt = sp->distance(from, out);
            double e = 64 * 2.2e-16 * coordScale(d) * weightSum(d) * 4 + (d.contains(SO3) ? 3 * 4.5e-5 * weightSum(d) : 0) + 1e-9 * full;
            c.stat(d.contains(SO3) ? "proportionality-error:withSO3" : "proportionality-error:plain", std::fabs(dt - t * full));
            VCHECK(c, std::fabs(dt - t * full) <= e, std::string("C07/proportional/") + famName(d),
                   "%s: d(from, interp(%.17g)) = %.17g but t*d(from,to) = %.17g", d.name().c_str(), t, dt, t * full);
        }
    }
    // 4. re-parameterisation
    {
        double ss = genT(s), u = genT(s);
        sp->interpolate(from, to, ss, mid);
        sp->interpolate(mid, to, u, out);
        sp->interpolate(from, to, ss + (1 - ss) * u, out2);
        c.note(" reparam s=%.17g u=%.17g", ss, u);
        std::string bad = sameState(d, out, out2, dub ? 1e-5 * (1 + full) : 1e-8, dub ? 1e-5 * (1 + full) : 1e-8, 2e-4, 1);
        LeafDiff ld = leafDiff(d, out, out2);
        c.stat(dub ? "reparam-diff:dubins-family" : "reparam-diff:rv/angle", std::max({ld.rv, ld.ang, ld.time}));
        c.stat("reparam-diff:quat", ld.quat);
        std::string rkey = std::string("C07/reparam/") + famName(d);
        if (d.contains(KLEIN) && kleinAntipodalAcrossGlue(d, from, to))
            rkey = "C07/reparam/KleinBottle(antipodal-v-across-glue)";
        if (!bad.empty() && dub && (dubinsBelowEps(d, from, to) || dubinsBelowEps(d, mid, to)))
        {
            c.count("reparam-unjudged:poses-below-dubins-eps");
            bad.clear();
        }
        if (!bad.empty() && d.contains(DUBINS) && !hasSymDubins(d))
        {
            // The Dubins length is a discontinuous function of the poses and the solver snaps quantities below DUBINS_EPS = 1e-6:
            // the curve it reports may end up to ~1e-6 away from the exact target, and from an intermediate point the exact target
            // can then need a different word. A mismatch that disappears when the target is moved by <= 2e-6 is that grain, not a
            // wrong curve (a wrong table entry or formula fails for open sets of targets and is unaffected by such a nudge).
            double remainder = (1 - ss) * full;
            ob::State *nudged = h.alloc();
            bool explained = false;
            for (int k = 0; k < 12 && !explained; ++k)
            {
                sp->copyState(nudged, to);
                double e = (k % 2 ? -1 : 1) * (k < 6 ? 2e-7 : 2e-6);
                walkNodesMut(d, nudged,
                             [&](const Desc &n, ob::State *x)
                             {
                                 if (n.kind != DUBINS)
                                     return;
                                 auto *q = x->as<ob::SE2StateSpace::StateType>();
                                 if (k % 6 < 2)
                                     q->setYaw(wrapPi(q->getYaw() + e) >= PI ? -PI : wrapPi(q->getYaw() + e));
                                 else if (k % 6 < 4)
                                     q->setX(q->getX() + e);
                                 else
                                     q->setY(q->getY() + e);
                             });
                if (std::fabs(sp->distance(mid, nudged) - remainder) <= 1e-5 * (1 + full) * weightSum(d))
                    explained = true;
            }
            if (explained)
            {
                c.count("reparam-unjudged:dubins-eps-discontinuity");
                bad.clear();
            }
        }
        if (!bad.empty())
            c.failOrKnown(rkey,
                          vf::fmt("%s: interp(interp(a,b,%.17g),b,%.17g) = %s but interp(a,b,%.17g) = %s (%s)", d.name().c_str(), ss, u,
                                  show(d, out).c_str(), ss + (1 - ss) * u, show(d, out2).c_str(), bad.c_str()));
    }
    int md = 0;
    std::function<void(const Desc &)> rec = [&](const Desc &q)
    {
        md = std::max(md, q.depth);
        for (auto &t : q.subs)
            rec(t);
    };
    rec(d);
    c.nontrivial = std::string(rel) != "independent" || (d.kind == COMPOUND && md >= 2);
}

#include "../core/runner.h"
