// C18 — termination conditions mean exactly what they say.
// Generator: combinator trees over {predicate trace, always, never, iteration(n)} with terminate()/eval interleavings,
// cost sequences for the convergence condition, solution add/clear sequences for the exact-solution condition, and
// (a small share of cases, they cost real time) timed / periodic forms. Oracle: reference interpreter / bracketing.
#include "../core/verif.h"
#include "ompl/base/PlannerTerminationCondition.h"
#include "ompl/base/ProblemDefinition.h"
#include "ompl/base/SpaceInformation.h"
#include "ompl/base/spaces/RealVectorStateSpace.h"
#include "ompl/base/terminationconditions/CostConvergenceTerminationCondition.h"
#include "ompl/base/terminationconditions/IterationTerminationCondition.h"
#include "ompl/geometric/PathGeometric.h"
#include "ompl/util/Console.h"
#include <chrono>
#include <memory>
#include <thread>

namespace ob = ompl::base;

namespace
{
    struct Node
    {
        int type;  // 0 pred, 1 always, 2 never, 3 iter, 4 or, 5 and
        int a = -1, b = -1;
        unsigned n = 0;
        std::shared_ptr<std::vector<uint8_t>> trace;  // for pred
        std::shared_ptr<size_t> calls;                // impl-side invocation counter (pred)
        // reference state
        bool terminated = false;
        size_t refCalls = 0;
        unsigned refIter = 0;
        std::shared_ptr<ob::PlannerTerminationCondition> ptc;
        std::shared_ptr<ob::IterationTerminationCondition> iter;
    };

    bool refEval(std::vector<Node> &t, int i)
    {
        Node &n = t[i];
        if (n.terminated)
            return true;
        switch (n.type)
        {
            case 0:
            {
                size_t k = n.refCalls++;
                return k < n.trace->size() ? (*n.trace)[k] != 0 : false;
            }
            case 1:
                return true;
            case 2:
                return false;
            case 3:
                return ++n.refIter > n.n;
            case 4:
                return refEval(t, n.a) || refEval(t, n.b);
            default:
                return refEval(t, n.a) && refEval(t, n.b);
        }
    }

    using Clock = std::chrono::system_clock;  // the clock ompl::time uses
    double secs(Clock::duration d)
    {
        return std::chrono::duration<double>(d).count();
    }
}  // namespace

#define VF_HAS_PROCESS_INIT
void vf::process_init()
{
    ompl::msg::setLogLevel(ompl::msg::LOG_NONE);
}

vf::Config vf::config()
{
    Config c;
    c.property = "C18";
    c.maxLen = 300;
    c.batch = 2000;
    c.caseTimeout = 60;
    return c;
}

static void treeCase(vf::Src &s, vf::Ctx &c)
{
    std::vector<Node> t;
    int leaves = s.in(1, 5);
    for (int i = 0; i < leaves; ++i)
    {
        Node n;
        n.type = (int)s.weighted({6, 1, 1, 3});
        if (n.type == 0)
        {
            n.trace = std::make_shared<std::vector<uint8_t>>();
            int len = s.in(0, 24);
            int density = s.in(0, 255);
            for (int k = 0; k < len; ++k)
                n.trace->push_back(s.u8() < density ? 1 : 0);
            n.calls = std::make_shared<size_t>(0);
            auto tr = n.trace;
            auto calls = n.calls;
            n.ptc = std::make_shared<ob::PlannerTerminationCondition>(ob::PlannerTerminationConditionFn(
                [tr, calls]()
                {
                    size_t k = (*calls)++;
                    return k < tr->size() ? (*tr)[k] != 0 : false;
                }));
        }
        else if (n.type == 1)
            n.ptc = std::make_shared<ob::PlannerTerminationCondition>(ob::plannerAlwaysTerminatingCondition());
        else if (n.type == 2)
            n.ptc = std::make_shared<ob::PlannerTerminationCondition>(ob::plannerNonTerminatingCondition());
        else
        {
            n.n = (unsigned)s.in(0, 12);
            n.iter = std::make_shared<ob::IterationTerminationCondition>(n.n);
            // the converting operator copies the counter into the returned condition (documented behaviour of the class)
            n.ptc = std::make_shared<ob::PlannerTerminationCondition>(static_cast<ob::PlannerTerminationCondition>(*n.iter));
        }
        t.push_back(n);
    }
    // combine until one root remains; keep every intermediate node addressable
    std::vector<int> roots;
    for (int i = 0; i < leaves; ++i)
        roots.push_back(i);
    int depth = 0;
    while (roots.size() > 1)
    {
        size_t i = s.pick(roots.size());
        int a = roots[i];
        roots.erase(roots.begin() + i);
        size_t j = s.pick(roots.size());
        int b = roots[j];
        roots.erase(roots.begin() + j);
        Node n;
        n.type = s.flag() ? 4 : 5;
        n.a = a;
        n.b = b;
        n.ptc = std::make_shared<ob::PlannerTerminationCondition>(n.type == 4 ? ob::plannerOrTerminationCondition(*t[a].ptc, *t[b].ptc) :
                                                                                ob::plannerAndTerminationCondition(*t[a].ptc, *t[b].ptc));
        t.push_back(n);
        roots.push_back((int)t.size() - 1);
        ++depth;
    }
    int root = roots[0];
    auto show = [&](auto &&self, int i) -> std::string
    {
        Node &n = t[i];
        switch (n.type)
        {
            case 0:
            {
                std::string r = "pred[";
                for (auto b : *n.trace)
                    r += b ? '1' : '0';
                return r + "]";
            }
            case 1:
                return "always";
            case 2:
                return "never";
            case 3:
                return "iter(" + std::to_string(n.n) + ")";
            default:
                return std::string(n.type == 4 ? "or(" : "and(") + self(self, n.a) + "," + self(self, n.b) + ")";
        }
    };
    if (c.render)
        c.note("tree %s\n", show(show, root).c_str());
    bool termInside = false;
    int steps = s.in(1, 30);
    for (int k = 0; k < steps && !s.exhausted(); ++k)
    {
        size_t what = s.weighted({10, 2, 2});
        if (what == 0 || what == 1)
        {
            int node = what == 0 ? root : (int)s.pick(t.size());
            bool got = what == 0 && s.flag() ? (*t[node].ptc)() : t[node].ptc->eval();
            bool ref = refEval(t, node);
            c.note("eval(n%d)=%d ", node, (int)got);
            VCHECK(c, got == ref, "C18/tree-value", "step %d: eval of node %d (%s) = %d, reference interpreter %d", k, node,
                   show(show, node).c_str(), (int)got, (int)ref);
            for (size_t i = 0; i < t.size(); ++i)
                if (t[i].type == 0)
                    VCHECK(c, *t[i].calls == t[i].refCalls, "C18/tree-invocations",
                           "step %d: predicate leaf %zu invoked %zu times, reference %zu (short-circuit / terminate semantics)", k, i, *t[i].calls,
                           t[i].refCalls);
        }
        else
        {
            int node = (int)s.pick(t.size());
            t[node].ptc->terminate();
            t[node].terminated = true;
            c.note("terminate(n%d) ", node);
            if (k > 0 && k < steps - 1)
                termInside = true;
            VCHECK(c, t[node].ptc->eval(), "C18/terminate-sticky", "eval() false right after terminate() on node %d", node);
        }
    }
    c.count("tree");
    c.nontrivial = depth >= 2 || termInside;
}

static void iterationCase(vf::Src &s, vf::Ctx &c)
{
    unsigned n = (unsigned)s.in(0, 40);
    ob::IterationTerminationCondition itc(n);
    bool viaPtc = s.flag();
    ob::PlannerTerminationCondition ptc = static_cast<ob::PlannerTerminationCondition>(itc);
    unsigned evals = (unsigned)s.in(1, 60);
    c.note("iteration(%u) via %s, %u evaluations", n, viaPtc ? "converted condition" : "eval()", evals);
    for (unsigned k = 1; k <= evals; ++k)
    {
        bool got = viaPtc ? ptc.eval() : itc.eval();
        VCHECK(c, got == (k > n), "C18/iteration", "iteration(%u): evaluation %u returned %d", n, k, (int)got);
    }
    if (!viaPtc && s.flag())
    {
        itc.reset();
        for (unsigned k = 1; k <= n + 1; ++k)
            VCHECK(c, itc.eval() == (k > n), "C18/iteration-reset", "iteration(%u) after reset(): evaluation %u wrong", n, k);
    }
    // large counts (decoded last): n is any unsigned value - callers pass the maximum for "no limit" - and the condition must stay false
    // for every evaluation one can afford to make
    if (s.chance(96))
    {
        static const unsigned big[] = {4294967295u, 4294967294u, 2147483648u, 2147483647u, 65536u, 65535u, 1000u};
        unsigned nb = big[s.pick(7)];
        ob::IterationTerminationCondition itb(nb);
        ob::PlannerTerminationCondition pb = static_cast<ob::PlannerTerminationCondition>(itb);
        bool via = s.flag();
        unsigned ev = (unsigned)s.in(1, 200);
        c.note(" | iteration(%u) via %s, %u evaluations", nb, via ? "converted condition" : "eval()", ev);
        for (unsigned k = 1; k <= ev; ++k)
        {
            bool got = via ? pb.eval() : itb.eval();
            VCHECK(c, got == (k > nb), "C18/iteration", "iteration(%u): evaluation %u returned %d", nb, k, (int)got);
        }
        c.count("iteration:large-n");
    }
    c.count("iteration");
    c.nontrivial = evals > n && n > 0;
}

static void convergenceCase(vf::Src &s, vf::Ctx &c)
{
    auto space = std::make_shared<ob::RealVectorStateSpace>(1);
    space->setBounds(0, 1);
    auto si = std::make_shared<ob::SpaceInformation>(space);
    ob::ProblemDefinitionPtr pdef = std::make_shared<ob::ProblemDefinition>(si);
    size_t window = (size_t)s.in(1, 8);
    double eps = s.flag() ? s.logreal(1e-3, 1.0) : 0.1;
    ob::CostConvergenceTerminationCondition cc(pdef, window, eps);
    auto cb = pdef->getIntermediateSolutionCallback();
    VCHECK(c, (bool)cb, "C18/convergence-callback", "no intermediate-solution callback installed");
    c.note("costConvergence(window=%zu, eps=%.6g): ", window, eps);
    // reference rule (from the header comment): cumulative moving average over min(count, window) solutions;
    // fire at the first solution (count >= window) whose update moves the average by less than eps relative.
    double avg = 0;
    size_t count = 0;
    bool fired = false, borderline = false;
    size_t firedAt = 0;
    int n = s.in(1, 30);
    double cost = s.real(1, 100);
    for (int k = 0; k < n && !s.exhausted(); ++k)
    {
        switch (s.weighted({3, 3, 1}))
        {
            case 0:
                cost *= 1.0 - s.real(0, 0.3);
                break;  // improving
            case 1:
                cost *= 1.0 - s.real(0, 0.02);
                break;  // nearly converged
            default:
                cost = s.real(0.5, 100);
        }
        if (!(cost > 0))
            cost = 1e-3;
        c.note("%.6g ", cost);
        cb(nullptr, std::vector<const ob::State *>(), ob::Cost(cost));
        ++count;
        size_t m = std::min(count, window);
        double newAvg = ((m - 1) * avg + cost) / m;
        double lo = (1. - eps) * avg, hi = (1. + eps) * avg;
        bool fire = m == window && newAvg > lo && newAvg < hi;
        if (std::fabs(newAvg - lo) <= 1e-12 * std::fabs(lo) || std::fabs(newAvg - hi) <= 1e-12 * std::fabs(hi))
            borderline = true;  // rounding decides: no verdict from here on
        avg = newAvg;
        if (borderline)
            break;
        if (fire && !fired)
        {
            fired = true;
            firedAt = count;
        }
        VCHECK(c, cc.eval() == fired, "C18/cost-convergence",
               "after solution %zu (cost %.9g, window %zu, eps %.6g): eval()=%d, documented moving-average rule says %d", count, cost, window, eps,
               (int)cc.eval(), (int)fired);
    }
    c.count(borderline ? "convergence:borderline-unjudged" : fired ? "convergence:fired" : "convergence:not-fired");
    c.nontrivial = fired && firedAt > window;
}

static void exactSolnCase(vf::Src &s, vf::Ctx &c)
{
    auto space = std::make_shared<ob::RealVectorStateSpace>(1);
    space->setBounds(0, 1);
    auto si = std::make_shared<ob::SpaceInformation>(space);
    auto pdef = std::make_shared<ob::ProblemDefinition>(si);
    ob::PlannerTerminationCondition ptc = ob::exactSolnPlannerTerminationCondition(pdef);
    int exact = 0, approx = 0, changes = 0;
    c.note("exactSoln: ");
    int n = s.in(1, 20);
    for (int k = 0; k < n && !s.exhausted(); ++k)
    {
        size_t what = s.weighted({3, 3, 1});
        if (what == 2)
        {
            pdef->clearSolutionPaths();
            exact = approx = 0;
            c.note("clear ");
        }
        else
        {
            auto path = std::make_shared<ompl::geometric::PathGeometric>(si);
            ob::State *st = si->allocState();
            st->as<ob::RealVectorStateSpace::StateType>()->values[0] = s.unit();
            path->append(st);
            si->freeState(st);
            bool ap = what == 1;
            pdef->addSolutionPath(path, ap, ap ? s.real(0.01, 1) : 0.0, "harness");
            (ap ? approx : exact)++;
            c.note(ap ? "addApprox " : "addExact ");
        }
        bool ref = exact > 0;
        bool got = ptc.eval();
        changes += 1;
        VCHECK(c, got == ref, "C18/exact-solution", "after step %d: eval()=%d but the problem definition holds %d exact / %d approximate solutions", k,
               (int)got, exact, approx);
    }
    c.count("exact-solution");
    c.nontrivial = exact > 0 && approx > 0;
}

static void timedCase(vf::Src &s, vf::Ctx &c)
{
    // bracketing oracle, immune to scheduling delays: only inequalities that hold however late we run
    double d = s.real(0.0005, 0.008);
    bool periodic = s.flag();
    double interval = s.real(0.0002, 0.004);
    auto t0 = Clock::now();
    ob::PlannerTerminationCondition ptc = periodic ? ob::timedPlannerTerminationCondition(d, interval) : ob::timedPlannerTerminationCondition(d);
    auto t1 = Clock::now();
    c.note("timed(%.6f%s)", d, periodic ? ", periodic" : "");
    bool seenTrue = false;
    int evals = 0;
    const double us2 = 2e-6;  // ompl::time::seconds() truncates to whole microseconds
    for (;;)
    {
        auto a = Clock::now();
        bool v = ptc.eval();
        auto b = Clock::now();
        ++evals;
        if (v)
        {
            VCHECK(c, secs(b - t0) > d - us2, "C18/timed-early", "timed(%.6f) reported true only %.6f s after construction began", d, secs(b - t0));
            seenTrue = true;
        }
        else
        {
            VCHECK(c, !seenTrue, "C18/timed-revert", "timed(%.6f) reverted to false after having been true", d);
            if (!periodic)
                VCHECK(c, secs(a - t1) <= d + 1e-3, "C18/timed-late", "timed(%.6f) still false %.6f s after construction finished", d, secs(a - t1));
            else
                // cached value is refreshed at least once per interval; 2 s of scheduling slack before it is called a violation
                VCHECK(c, secs(a - t1) <= d + 3 * interval + 2.0, "C18/timed-late", "periodic timed(%.6f, %.6f) still false after %.3f s", d, interval,
                       secs(a - t1));
        }
        if (seenTrue && evals > 3 && secs(b - t1) > d + 2 * interval + 0.002)
            break;
        if (secs(b - t1) > 5.0)
            break;
        if (s.flag())
            std::this_thread::sleep_for(std::chrono::microseconds(200));
    }
    VCHECK(c, seenTrue, "C18/timed-never", "timed(%.6f) never became true within 5 s", d);
    c.count(periodic ? "timed-periodic" : "timed");
    c.nontrivial = true;
}

static void periodicCase(vf::Src &s, vf::Ctx &c)
{
    // periodically evaluated predicate: the cached value can only be something the predicate returned after construction
    double period = s.real(0.0003, 0.003);
    auto flag = std::make_shared<std::atomic<bool>>(false);
    auto calls = std::make_shared<std::atomic<size_t>>(0);
    {
        ob::PlannerTerminationCondition ptc([flag, calls]()
                                            {
                                                ++*calls;
                                                return flag->load();
                                            },
                                            period);
        c.note("periodic(%.6f) ", period);
        for (int k = 0; k < 5; ++k)
        {
            VCHECK(c, !ptc.eval(), "C18/periodic-spurious", "periodic condition true although the predicate never returned true");
            std::this_thread::sleep_for(std::chrono::microseconds(100));
        }
        bool useTerminate = s.flag();
        if (useTerminate)
        {
            ptc.terminate();
            VCHECK(c, ptc.eval(), "C18/terminate-sticky", "periodic condition false right after terminate()");
        }
        else
        {
            flag->store(true);
            auto T = Clock::now();
            bool ok = false;
            while (secs(Clock::now() - T) < period * 3 + 2.0)
            {
                if (ptc.eval())
                {
                    ok = true;
                    break;
                }
                std::this_thread::sleep_for(std::chrono::microseconds(100));
            }
            c.stat("periodic-latency/period", secs(Clock::now() - T) / period);
            VCHECK(c, ok, "C18/periodic-late", "periodic(%.6f): predicate true for %.3f s, condition still false", period, secs(Clock::now() - T));
            VCHECK(c, ptc.eval(), "C18/periodic-revert", "periodic condition reverted while the predicate stays true");
            // the predicate need not be monotone: only terminate() latches. Further switches (false, true, ...) must be followed
            // within a period (2 s of scheduling slack before it is called a violation), and the predicate must keep being asked.
            int switches = s.in(0, 3);
            bool want = true;
            for (int k = 0; k < switches; ++k)
            {
                want = !want;
                size_t callsBefore = calls->load();
                flag->store(want);
                auto T2 = Clock::now();
                bool followed = false;
                while (secs(Clock::now() - T2) < period * 3 + 2.0)
                {
                    if (ptc.eval() == want)
                    {
                        followed = true;
                        break;
                    }
                    std::this_thread::sleep_for(std::chrono::microseconds(100));
                }
                c.count(want ? "periodic:switch-to-true" : "periodic:switch-to-false");
                VCHECK(c, followed, want ? "C18/periodic-late" : "C18/periodic-latched", "periodic(%.6f): predicate switched to %s %.3f s ago, condition still reports %s (switch %d)",
                       period, want ? "true" : "false", secs(Clock::now() - T2), want ? "false" : "true", k + 1);
                VCHECK(c, calls->load() > callsBefore, "C18/periodic-not-evaluated", "periodic(%.6f): the predicate was not invoked again after switch %d", period, k + 1);
            }
        }
    }  // destructor joins the evaluation thread
    size_t after = calls->load();
    std::this_thread::sleep_for(std::chrono::microseconds(300));
    VCHECK(c, calls->load() == after, "C18/periodic-thread-alive", "predicate still being invoked after the condition was destroyed");
    c.count("periodic");
    c.nontrivial = true;
}

void vf::run_case(Src &s, Ctx &c)
{
    bool thorough = c.tier == "thorough";
    (void)thorough;
    switch (s.weighted({120, 30, 50, 30, 1, 1}))
    {
        case 0:
            treeCase(s, c);
            break;
        case 1:
            iterationCase(s, c);
            break;
        case 2:
            convergenceCase(s, c);
            break;
        case 3:
            exactSolnCase(s, c);
            break;
        case 4:
            timedCase(s, c);
            break;
        default:
            periodicCase(s, c);
            break;
    }
}

#include "../core/runner.h"
