// C15 — informed sampling returns only, and all of, the states that can still help.
#include "../core/verif.h"
#include "ompl/base/ProblemDefinition.h"
#include "ompl/base/SpaceInformation.h"
#include "ompl/base/goals/GoalState.h"
#include "ompl/base/goals/GoalStates.h"
#include "ompl/base/objectives/PathLengthOptimizationObjective.h"
#include "ompl/base/samplers/informed/PathLengthDirectInfSampler.h"
#include "ompl/base/samplers/informed/RejectionInfSampler.h"
#include "ompl/base/spaces/RealVectorStateSpace.h"
#include "ompl/base/spaces/SE2StateSpace.h"
#include "ompl/base/spaces/SE3StateSpace.h"
#include "ompl/util/Console.h"
#include "ompl/util/ProlateHyperspheroid.h"
#include "ompl/util/RandomNumbers.h"
#include <algorithm>

namespace ob = ompl::base;
static const double PI = 3.14159265358979323846;

#define VF_HAS_PROCESS_INIT
void vf::process_init()
{
    ompl::msg::setLogLevel(ompl::msg::LOG_NONE);
}

vf::Config vf::config()
{
    Config c;
    c.property = "C15";
    c.maxLen = 300;
    c.batch = 500;
    return c;
}

namespace
{
    double unitBall(unsigned n)
    {
        return std::pow(PI, n / 2.0) / std::tgamma(n / 2.0 + 1.0);
    }
    double phsVolume(unsigned n, double dFoci, double c)
    {
        double conj = std::sqrt(std::max(0.0, c * c - dFoci * dFoci));
        return unitBall(n) * (c / 2) * std::pow(conj / 2, (double)n - 1);
    }
    // Kolmogorov-Smirnov distance of values in [0,1] against the uniform law
    double ksUniform(std::vector<double> &v)
    {
        std::sort(v.begin(), v.end());
        double d = 0;
        const double n = (double)v.size();
        for (size_t i = 0; i < v.size(); ++i)
            d = std::max({d, std::fabs((i + 1) / n - v[i]), std::fabs(v[i] - i / n)});
        return d;
    }
}  // namespace

// RNG / ProlateHyperspheroid level: surface law, measure, uniformity of the region (harness-side inverse map)
static void phsCase(vf::Src &s, vf::Ctx &c)
{
    unsigned n = (unsigned)s.in(2, 8);
    std::vector<double> f1(n), f2(n);
    // layouts: along the first axis / generic offset / independent / generic direction at a tiny separation (the statement quantifies over
    // every pair separated by more than the library's 1e-9 circle tolerance)
    size_t layout = s.weighted({3, 3, 2, 2});
    const double tinySep = layout == 3 ? s.logreal(3e-9, 1e-2) : 0;
    double dirNorm = 0;
    std::vector<double> dir(n);
    for (unsigned i = 0; i < n; ++i)
    {
        dir[i] = layout == 3 ? s.real(-1, 1) : 0;
        dirNorm += dir[i] * dir[i];
    }
    dirNorm = std::sqrt(dirNorm);
    if (layout == 3 && dirNorm < 1e-3)
        throw vf::Skip{"degenerate direction"};
    for (unsigned i = 0; i < n; ++i)
    {
        f1[i] = s.real(-3, 3);
        f2[i] = layout == 0 ? (i == 0 ? f1[i] + s.real(0.1, 4) : f1[i]) : layout == 1 ? f1[i] + s.real(0.05, 2) : layout == 2 ? s.real(-3, 3) : f1[i] + tinySep * dir[i] / dirNorm;
    }
    double dF = 0;
    for (unsigned i = 0; i < n; ++i)
        dF += (f1[i] - f2[i]) * (f1[i] - f2[i]);
    dF = std::sqrt(dF);
    if (dF < 2e-9)
        throw vf::Skip{"foci too close"};
    // absolute rounding floor of a focal-distance sum computed from coordinates of magnitude <= 5 (matters only for tiny separations)
    const double ea = 5e-14;
    c.count(layout == 3 ? (dF < 3.2e-5 ? "phs:separation<3.2e-5" : "phs:separation<1e-2") : "phs:separation-ordinary");
    size_t ck = s.weighted({4, 3, 3});
    double cost = ck == 0 ? dF * (1 + s.logreal(1e-4, 1)) : ck == 1 ? dF * s.real(1.0001, 2) : dF * s.real(2, 100);
    auto phs = std::make_shared<ompl::ProlateHyperspheroid>(n, f1.data(), f2.data());
    phs->setTransverseDiameter(cost);
    c.note("PHS n=%u dFoci=%.9g cost=%.9g (ratio %.6g)\n", n, dF, cost, cost / dF);
    c.count("phs:dim" + std::to_string(n));
    ompl::RNG rng((std::uint_fast32_t)(1 + s.u(0, 1000000)));
    auto focal = [&](const double *x)
    {
        double a = 0, b = 0;
        for (unsigned i = 0; i < n; ++i)
        {
            a += (x[i] - f1[i]) * (x[i] - f1[i]);
            b += (x[i] - f2[i]) * (x[i] - f2[i]);
        }
        return std::sqrt(a) + std::sqrt(b);
    };
    std::vector<double> x(n);
    // surface law
    for (int k = 0; k < 16; ++k)
    {
        rng.uniformProlateHyperspheroidSurface(phs, x.data());
        double fs = focal(x.data());
        c.stat("surface-focal-sum-error(rel)", std::fabs(fs - cost) / cost);
        VCHECK(c, std::fabs(fs - cost) <= 1e-9 * cost + ea, "C15/surface-focal-sum", "n=%u: a surface sample has focal-distance sum %.15g, transverse diameter %.15g", n, fs, cost);
        VCHECK(c, std::fabs(phs->getPathLength(x.data()) - fs) <= 1e-9 * cost + ea, "C15/getPathLength", "getPathLength() %.15g != recomputed focal sum %.15g", phs->getPathLength(x.data()), fs);
    }
    // measure
    double vol = phsVolume(n, dF, cost);
    VCHECK(c, std::fabs(phs->getPhsMeasure() - vol) <= 1e-9 * vol, "C15/phs-measure", "n=%u dFoci=%.9g c=%.9g: getPhsMeasure() = %.15g, analytic volume %.15g", n, dF, cost,
           phs->getPhsMeasure(), vol);
    VCHECK(c, std::fabs(phs->getPhsMeasure(cost * 1.5) - phsVolume(n, dF, cost * 1.5)) <= 1e-9 * phsVolume(n, dF, cost * 1.5), "C15/phs-measure", "getPhsMeasure(c') differs from the analytic volume");
    // interior samples: inside, and (in a share of the cases, it costs 20000 samples) uniform
    // (not at tiny separations with a thin spheroid: the harness-side inverse map then amplifies coordinate rounding into the statistic)
    bool stat = s.chance(40) && !(layout == 3 && (dF < 1e-5 || cost < 1.5 * dF));
    int N = stat ? 20000 : 64;
    // harness-side inverse affine map: coordinates along the focal axis and radial distance from it
    std::vector<double> axis(n), centre(n);
    for (unsigned i = 0; i < n; ++i)
    {
        axis[i] = (f2[i] - f1[i]) / dF;
        centre[i] = 0.5 * (f1[i] + f2[i]);
    }
    const double ra = cost / 2, rb = std::sqrt(cost * cost - dF * dF) / 2;
    std::vector<double> radN;
    double sumAxis = 0, sumAxis2 = 0;
    for (int k = 0; k < N; ++k)
    {
        rng.uniformProlateHyperspheroid(phs, x.data());
        double fs = focal(x.data());
        VCHECK(c, fs <= cost * (1 + 1e-9) + ea, "C15/interior-outside", "n=%u: an interior sample has focal sum %.15g > %.15g", n, fs, cost);
        double along = 0, tot = 0;
        for (unsigned i = 0; i < n; ++i)
        {
            along += (x[i] - centre[i]) * axis[i];
            tot += (x[i] - centre[i]) * (x[i] - centre[i]);
        }
        double perp2 = std::max(0.0, tot - along * along);
        double u = along / ra, r2 = u * u + perp2 / (rb * rb);  // squared radius in unit-ball coordinates
        radN.push_back(std::pow(std::min(1.0, r2), n / 2.0));
        sumAxis += u;
        sumAxis2 += u * u;
    }
    if (stat)
    {
        double D = ksUniform(radN);
        double mean = sumAxis / N, sd = std::sqrt(std::max(1e-12, sumAxis2 / N - mean * mean));
        c.stat("ks-D(radius^n)", D);
        c.stat("axis-mean-z", std::fabs(mean) / (sd / std::sqrt((double)N)));
        // thresholds with false-alarm probability < 1e-12 for N = 20000 (DESIGN section 4, C15)
        VCHECK(c, D < 0.03, "C15/not-uniform-radius", "n=%u c/d=%.4g: KS distance of radius^n from uniform is %.4f over %d samples (threshold 0.03)", n, cost / dF, D, N);
        VCHECK(c, std::fabs(mean) < 7.5 * sd / std::sqrt((double)N), "C15/not-uniform-axis", "n=%u: mean position along the focal axis is %.4g sigma off centre", n,
               std::fabs(mean) / (sd / std::sqrt((double)N)));
        c.count("phs:uniformity-tested");
    }
    c.nontrivial = cost < 2 * dF || stat;
}

static void samplerCase(vf::Src &s, vf::Ctx &c)
{
    ompl::RNG::setSeed(1 + (unsigned)s.u(0, 1000000));
    size_t sk = s.weighted({5, 2, 2});
    ob::StateSpacePtr sp;
    unsigned n = 2;
    double lo = -5, hi = 5;
    if (sk == 0)
    {
        n = (unsigned)s.in(2, 8);
        auto r = std::make_shared<ob::RealVectorStateSpace>(n);
        r->setBounds(lo, hi);
        sp = r;
    }
    else if (sk == 1)
    {
        auto r = std::make_shared<ob::SE2StateSpace>();
        ob::RealVectorBounds b(2);
        b.setLow(lo);
        b.setHigh(hi);
        r->setBounds(b);
        sp = r;
        n = 2;
    }
    else
    {
        auto r = std::make_shared<ob::SE3StateSpace>();
        ob::RealVectorBounds b(3);
        b.setLow(lo);
        b.setHigh(hi);
        r->setBounds(b);
        sp = r;
        n = 3;
    }
    auto si = std::make_shared<ob::SpaceInformation>(sp);
    si->setStateValidityChecker([](const ob::State *) { return true; });
    si->setup();
    auto pdef = std::make_shared<ob::ProblemDefinition>(si);
    auto pos = [&](const ob::State *st, double *out)
    {
        const double *v = sk == 0 ? st->as<ob::RealVectorStateSpace::StateType>()->values :
                                    st->as<ob::CompoundState>()->as<ob::RealVectorStateSpace::StateType>(0)->values;
        for (unsigned i = 0; i < n; ++i)
            out[i] = v[i];
    };
    auto setPos = [&](ob::State *st, const std::vector<double> &p)
    {
        double *v = sk == 0 ? st->as<ob::RealVectorStateSpace::StateType>()->values : st->as<ob::CompoundState>()->as<ob::RealVectorStateSpace::StateType>(0)->values;
        for (unsigned i = 0; i < n; ++i)
            v[i] = p[i];
        if (sk == 1)
            st->as<ob::SE2StateSpace::StateType>()->setYaw(0.3);
        if (sk == 2)
            st->as<ob::SE3StateSpace::StateType>()->rotation().setIdentity();
    };
    int ns = s.chance(64) ? 2 : 1, ng = s.chance(64) ? 2 + (int)s.pick(2) : 1;
    std::vector<std::vector<double>> S, G;
    bool nearBound = s.chance(64);
    auto genP = [&]()
    {
        std::vector<double> p(n);
        for (auto &v : p)
            v = nearBound ? (s.flag() ? hi - s.real(0, 0.5) : s.real(lo, hi)) : s.real(-2.5, 2.5);
        return p;
    };
    for (int i = 0; i < ns; ++i)
        S.push_back(genP());
    for (int i = 0; i < ng; ++i)
        G.push_back(genP());
    // sometimes the first goal sits a tiny, generically directed step away from the first start (separation > 1e-9 circle tolerance)
    const bool tiny = s.chance(40);
    if (tiny)
    {
        double sep = s.logreal(3e-9, 1e-2), nn = 0;
        std::vector<double> dir(n);
        for (auto &v : dir)
        {
            v = s.real(-1, 1);
            nn += v * v;
        }
        nn = std::sqrt(nn);
        if (nn < 1e-3)
            throw vf::Skip{"degenerate direction"};
        for (unsigned i = 0; i < n; ++i)
            G[0][i] = std::min(hi, std::max(lo, S[0][i] + sep * dir[i] / nn));
    }
    const double ea = 5e-14;
    std::vector<ob::State *> owned;
    for (auto &p : S)
    {
        ob::State *st = si->allocState();
        setPos(st, p);
        pdef->addStartState(st);
        owned.push_back(st);
    }
    auto goal = std::make_shared<ob::GoalStates>(si);
    for (auto &p : G)
    {
        ob::State *st = si->allocState();
        setPos(st, p);
        goal->addState(st);
        owned.push_back(st);
    }
    pdef->setGoal(goal);
    struct Fr
    {
        ob::SpaceInformationPtr si;
        std::vector<ob::State *> *o;
        ~Fr()
        {
            for (auto *x : *o)
                si->freeState(x);
        }
    } fr{si, &owned};
    pdef->setOptimizationObjective(std::make_shared<ob::PathLengthOptimizationObjective>(si));
    auto dist = [&](const std::vector<double> &a, const double *b)
    {
        double r = 0;
        for (unsigned i = 0; i < n; ++i)
            r += (a[i] - b[i]) * (a[i] - b[i]);
        return std::sqrt(r);
    };
    double dMin = 1e300;
    for (auto &a : S)
        for (auto &b : G)
            dMin = std::min(dMin, dist(a, b.data()));
    if (dMin < 2e-9)
        throw vf::Skip{"foci too close"};
    c.count(tiny ? (dMin < 3.2e-5 ? "sampler:separation<3.2e-5" : "sampler:separation<1e-2") : "sampler:separation-ordinary");
    bool direct = s.weighted({3, 2}) == 0;
    std::shared_ptr<ob::InformedSampler> smp;
    unsigned maxCalls = (unsigned)s.in(50, 400);
    try
    {
        if (direct)
            smp = std::make_shared<ob::PathLengthDirectInfSampler>(pdef, maxCalls);
        else
            smp = std::make_shared<ob::RejectionInfSampler>(pdef, maxCalls);
    }
    catch (const ompl::Exception &e)
    {
        throw vf::Skip{std::string("sampler construction rejected: ") + e.what()};
    }
    size_t ck = s.weighted({3, 3, 3, 1});
    double cost = ck == 0 ? dMin * (1 + s.logreal(1e-4, 0.5)) : ck == 1 ? dMin * s.real(1.01, 2) : ck == 2 ? dMin * s.real(2, 11) : 100 * (hi - lo);
    bool lower = s.chance(64);
    double minCost = lower ? dMin + (cost - dMin) * s.real(0.1, 0.8) : 0;
    c.note("%s sampler on %s n=%u, %d starts x %d goals, min focal distance %.6g, cost bound %.6g%s\n", direct ? "PathLengthDirect" : "Rejection",
           sk == 0 ? "R^n" : sk == 1 ? "SE2" : "SE3", n, ns, ng, dMin, cost, lower ? vf::fmt(", lower bound %.6g", minCost).c_str() : "");
    c.count(direct ? "sampler:direct" : "sampler:rejection");
    c.count(sk == 0 ? "space:R^n" : sk == 1 ? "space:SE2" : "space:SE3");
    ob::State *st = si->allocState();
    owned.push_back(st);
    int succ = 0;
    const std::string key = direct ? "/direct" : "/rejection";
    std::vector<double> p(n);
    for (int k = 0; k < 48; ++k)
    {
        bool ok;
        try
        {
            ok = lower ? smp->sampleUniform(st, ob::Cost(minCost), ob::Cost(cost)) : smp->sampleUniform(st, ob::Cost(cost));
        }
        catch (const ompl::Exception &e)
        {
            throw vf::Skip{std::string("sampling rejected: ") + e.what()};
        }
        if (!ok)
            continue;
        ++succ;
        VCHECK(c, sp->satisfiesBounds(st), "C15/out-of-bounds" + key, "a successful informed sample is outside the space bounds");
        double h = smp->heuristicSolnCost(st).value();
        VCHECK(c, h < cost * (1 + 1e-9) + ea, "C15/not-below-bound" + key, "successful sample has heuristic solution cost %.12g, bound %.12g", h, cost);
        if (lower)
            VCHECK(c, h >= minCost * (1 - 1e-9) - ea, "C15/below-lower-bound" + key, "successful sample has heuristic solution cost %.12g below the lower bound %.12g", h, minCost);
        // recomputed focal-distance sum (position part)
        pos(st, p.data());
        double fsum = 1e300;
        for (auto &a : S)
            for (auto &b : G)
                fsum = std::min(fsum, dist(a, p.data()) + dist(b, p.data()));
        if (direct || sk == 0)
            VCHECK(c, std::fabs(fsum - h) <= 1e-9 * (1 + fsum), "C15/heuristic-vs-focal-sum" + key, "heuristicSolnCost %.12g, recomputed focal-distance sum %.12g", h, fsum);
        else
            VCHECK(c, fsum <= h * (1 + 1e-9), "C15/heuristic-vs-focal-sum" + key, "position-only focal sum %.12g exceeds the full-state heuristic %.12g", fsum, h);
    }
    // measure: sum of the PHS volumes (x rotation-part measure), capped by the space measure
    if (direct && smp->hasInformedMeasure())
    {
        double m = 0;
        for (auto &a : S)
            for (auto &b : G)
            {
                double dF = dist(a, b.data());
                if (cost > dF)
                    m += phsVolume(n, dF, cost);
            }
        if (sk == 1)
            m *= 2 * PI;
        if (sk == 2)
            m *= sp->as<ob::SE3StateSpace>()->getSubspace(1)->getMeasure();
        double want = std::min(m, sp->getMeasure());
        double got = smp->getInformedMeasure(ob::Cost(cost));
        VCHECK(c, std::fabs(got - want) <= 1e-9 * want, "C15/informed-measure", "getInformedMeasure(%.9g) = %.12g, analytic %.12g (n=%u, %d x %d foci pairs)", cost, got, want, n, ns, ng);
    }
    // a second bound on the *same* sampler object (decoded last): planners call one sampler with a sequence of bounds. A smaller bound must
    // be honoured at once; after a larger one the states between the two bounds must be reachable again ("no state that could improve the
    // solution is excluded"). How much of the larger region lies between the bounds is estimated with 3000 uniformly drawn states of the
    // space (local seed from the case); the existence clause is only asserted when that share is at least one half and 40 samples
    // succeeded, so that a correct sampler fails it with probability < 1e-12.
    if (s.chance(128))
    {
        bool larger = s.chance(160);
        double cost2 = larger ? cost * s.real(1.3, 3) : dMin + (cost - dMin) * s.real(0.2, 0.9);
        ob::StateSamplerPtr us = sp->allocStateSampler();
        ob::State *u = si->allocState();
        owned.push_back(u);
        int inside = 0, shell = 0;
        for (int k = 0; k < 3000; ++k)
        {
            us->sampleUniform(u);
            double h = smp->heuristicSolnCost(u).value();
            if (h < std::min(cost, cost2))
                ++inside;
            else if (h < std::max(cost, cost2))
                ++shell;
        }
        double share = inside + shell > 0 ? (double)shell / (inside + shell) : 0;
        int succ2 = 0, inShell = 0;
        for (int k = 0; k < 64; ++k)
        {
            bool ok;
            try
            {
                ok = smp->sampleUniform(st, ob::Cost(cost2));
            }
            catch (const ompl::Exception &e)
            {
                throw vf::Skip{std::string("sampling rejected: ") + e.what()};
            }
            if (!ok)
                continue;
            ++succ2;
            double h = smp->heuristicSolnCost(st).value();
            VCHECK(c, sp->satisfiesBounds(st), "C15/out-of-bounds" + key, "a successful informed sample is outside the space bounds (second bound on one sampler)");
            VCHECK(c, h < cost2 * (1 + 1e-9) + ea, "C15/not-below-bound" + key, "second bound %.12g on the same sampler (first %.12g): sample has heuristic solution cost %.12g", cost2,
                   cost, h);
            if (h >= cost)
                ++inShell;
        }
        c.note("second bound %.6g on the same sampler: %d of 64 succeeded, %d between the bounds, estimated share %.3f\n", cost2, succ2, inShell, share);
        c.count(larger ? "second-bound:larger" : "second-bound:smaller");
        if (larger && share >= 0.5 && succ2 >= 40)
        {
            c.count("second-bound:existence-judged");
            VCHECK(c, inShell > 0, "C15/states-excluded-after-larger-bound" + key,
                   "bound %.9g then %.9g on one sampler: none of %d successful samples has a cost between the bounds although %.0f%% of the larger region lies there", cost,
                   cost2, succ2, 100 * share);
            // the two-bound form must find these states as well
            int ok2 = 0;
            for (int k = 0; k < 30; ++k)
                if (smp->sampleUniform(st, ob::Cost(cost), ob::Cost(cost2)))
                {
                    ++ok2;
                    double h = smp->heuristicSolnCost(st).value();
                    VCHECK(c, h >= cost * (1 - 1e-9) - ea && h < cost2 * (1 + 1e-9) + ea, "C15/two-bound-sample-outside" + key, "two-bound sample with cost %.12g outside [%.12g, %.12g)", h,
                           cost, cost2);
                }
            VCHECK(c, ok2 > 0, "C15/states-excluded-after-larger-bound" + key, "bounds [%.9g, %.9g) on one sampler: 30 two-bound calls all failed although %.0f%% of the region lies there",
                   cost, cost2, 100 * share);
        }
    }
    c.count(succ ? "samples:some-successful" : "samples:none");
    c.nontrivial = succ > 0 && (cost < 2 * dMin || nearBound || ns * ng >= 2);
}

void vf::run_case(Src &s, Ctx &c)
{
    if (s.weighted({4, 6}) == 0)
        phsCase(s, c);
    else
        samplerCase(s, c);
}

#include "../core/runner.h"
