// C17 — path post-processing preserves endpoints, validity and never worsens cost.
#include "../gen/planning.h"
#include "ompl/base/objectives/MaximizeMinClearanceObjective.h"
#include "ompl/base/objectives/PathLengthOptimizationObjective.h"
#include "ompl/base/objectives/StateCostIntegralObjective.h"
#include "ompl/geometric/PathHybridization.h"
#include "ompl/geometric/PathSimplifier.h"

namespace ob = ompl::base;
namespace og = ompl::geometric;
using namespace plan;

#define VF_HAS_PROCESS_INIT
void vf::process_init()
{
    ompl::msg::setLogLevel(ompl::msg::LOG_NONE);
}

vf::Config vf::config()
{
    Config c;
    c.property = "C17";
    c.maxLen = 500;
    c.batch = 200;
    c.caseTimeout = 60;
    return c;
}

namespace
{
    class FieldCost : public ob::StateCostIntegralObjective
    {
    public:
        const PlanSpace *ps;
        double a, fx, fy;
        double ridgeA = 0, ridgeX = 0, ridgeW = 1;  // optional costly ridge: cost is far from linear along a segment crossing it
        FieldCost(const ob::SpaceInformationPtr &si, const PlanSpace *p, double a_, double fx_, double fy_)
          : ob::StateCostIntegralObjective(si, true), ps(p), a(a_), fx(fx_), fy(fy_)
        {
        }
        ob::Cost stateCost(const ob::State *s) const override
        {
            double x, y;
            ps->xy(s, x, y);
            double u = (x - ridgeX) / ridgeW;
            return ob::Cost(1.0 + a * (1 + std::sin(fx * x) * std::cos(fy * y)) + ridgeA * std::exp(-u * u));
        }
    };

    // harness-side motion validity with the library's resolution (C05 reference) AND dense sampling, so inputs are valid under both
    bool motionOk(const Problem &P, const ob::State *a, const ob::State *b, ob::State *tmp)
    {
        if (!referenceMotion(P, a, b, tmp))
            return false;
        double len = P.ps.space->distance(a, b);
        unsigned steps = std::max(1u, (unsigned)std::ceil(len / (P.r() / 4)));
        for (unsigned k = 1; k < steps; ++k)
        {
            P.ps.space->interpolate(a, b, (double)k / steps, tmp);
            if (!oracleValid(P.ps, P.env, tmp))
                return false;
        }
        return true;
    }
    void appendXY(const Problem &P, vf::Src &s, og::PathGeometric &path, double x, double y, ob::State *scratch, ob::State *tmp)
    {
        x = std::min(P.ps.hi - 1e-6, std::max(P.ps.lo + 1e-6, x));
        y = std::min(P.ps.hi - 1e-6, std::max(P.ps.lo + 1e-6, y));
        P.ps.makeState(s, scratch, x, y);
        if (!oracleValid(P.ps, P.env, scratch))
            return;
        if (path.getStateCount() > 0 && !motionOk(P, path.getState(path.getStateCount() - 1), scratch, tmp))
            return;
        path.append(scratch);
    }
}  // namespace

void vf::run_case(Src &s, Ctx &c)
{
    const unsigned seed = 1 + (unsigned)s.u(0, 1000000);
    ompl::RNG::setSeed(seed);
    ProblemOpts o;
    o.allowAbnormal = false;
    o.onlySampleableGoal = true;
    std::shared_ptr<Problem> P = genProblem(s, o);
    auto &si = P->si;
    ob::State *scratch = si->allocState(), *tmp = si->allocState();
    struct G
    {
        ob::SpaceInformationPtr si;
        ob::State *a, *b;
        ~G()
        {
            si->freeState(a);
            si->freeState(b);
        }
    } guard{si, scratch, tmp};
    // ---- input path
    og::PathGeometric path(si);
    size_t shape = s.weighted({3, 5, 1, 1, 1});
    const char *shapeName[] = {"random-valid-polyline", "detour-around-obstacle", "tiny(1-2 states)", "with-repeated-states", "all-states-identical",
                               "serpentine-corridor"};
    double sx, sy;
    P->ps.xy(P->starts[0], sx, sy);
    path.append(P->starts[0]);
    // A sixth of the cases (decided by the already decoded seed; none of the saved cases has such a seed, so they keep their meaning) replace
    // the environment by a serpentine corridor - thin walls reaching alternately from the bottom and from the top - and walk through its
    // gaps with many vertices, close to the wall tips: long paths on which only nearby vertices see each other and every shortcut grazes a
    // corner. Random balls and boxes almost never form such passages.
    if (seed % 12 == 0 && P->r() >= 0.14 && P->r() <= 0.45)
    {
        // narrow winding band: valid space is a staircase approximation of |y - f(x)| < w, f a triangle wave, w about twice the checking
        // resolution (so that shortcuts can graze the steps between two check points); the input walks along the centre line
        shape = 5;
        const double r = P->r(), w = r * s.real(1.6, 3.0), dx = std::min(0.2, 0.4 * w), amp = s.real(0.6, 2.0), period = s.real(1.5, 4.0);
        const double x0 = P->ps.lo + 0.3, x1 = P->ps.hi - 0.3, mid = 0.5 * (P->ps.lo + P->ps.hi);
        auto f = [&](double x)
        {
            double u = std::fmod((x - x0) / period, 1.0);
            return mid + amp * (u < 0.5 ? 4 * u - 1 : 3 - 4 * u);
        };
        P->env.obs.clear();
        auto box = [&](double a, double b, double c0, double c1)
        {
            Obstacle o{};
            o.ball = false;
            o.x0 = a;
            o.x1 = b;
            o.y0 = c0;
            o.y1 = c1;
            P->env.obs.push_back(o);
        };
        box(P->ps.lo - 1, x0 - 0.2, P->ps.lo - 1, P->ps.hi + 1);
        box(x1 + 0.2, P->ps.hi + 1, P->ps.lo - 1, P->ps.hi + 1);
        std::vector<double> xs;
        for (double x = x0 - 0.2; x < x1 + 0.2; x += dx)
        {
            double yc = f(std::min(std::max(x + 0.5 * dx, x0), x1));
            box(x, x + dx, P->ps.lo - 1, yc - w);
            box(x, x + dx, yc + w, P->ps.hi + 1);
            xs.push_back(x + 0.5 * dx);
        }
        path.clear();
        int stride = s.in(1, 3);
        for (size_t i = 0; i < xs.size(); i += stride)
            if (xs[i] >= x0 && xs[i] <= x1)
                appendXY(*P, s, path, xs[i], f(xs[i]), scratch, tmp);
        if (path.getStateCount() == 0)
            throw Skip{"band too narrow for a valid centre line"};
        c.count("input:narrow-band");
    }
    else if (seed % 6 == 0)
    {
        shape = 5;
        double gx, gy;
        P->ps.xy(P->goals[0], gx, gy);
        P->env.obs.clear();
        int walls = s.in(3, 14);
        double gap = s.real(0.5, 1.6), thick = s.real(0.15, 0.5);
        bool right = sx < 0.5 * (P->ps.lo + P->ps.hi);
        struct W
        {
            double x, g0, g1;
        };
        std::vector<W> ws;
        for (int j = 0; j < walls; ++j)
        {
            double x = P->ps.lo + (P->ps.hi - P->ps.lo) * (j + 1.0) / (walls + 1.0);
            if (std::fabs(x - sx) < 0.5 + thick || std::fabs(x - gx) < 0.5 + thick)
                continue;
            Obstacle o{};
            o.ball = false;
            o.x0 = x - 0.5 * thick;
            o.x1 = x + 0.5 * thick;
            bool fromBottom = j % 2 == 0;
            o.y0 = fromBottom ? P->ps.lo - 1 : P->ps.lo + gap;
            o.y1 = fromBottom ? P->ps.hi - gap : P->ps.hi + 1;
            P->env.obs.push_back(o);
            if (right ? x > sx : x < sx)
                ws.push_back({x, fromBottom ? P->ps.hi - gap : P->ps.lo, fromBottom ? P->ps.hi : P->ps.lo + gap});
        }
        if (!right)
            std::reverse(ws.begin(), ws.end());
        double px = sx, py = sy;
        for (auto &w : ws)
        {
            // through the gap, at a generated height inside it (often close to the wall tip)
            double ty = w.g0 + (w.g1 - w.g0) * (s.flag() ? s.real(0.05, 0.3) : s.real(0.05, 0.95));
            if (w.g0 == P->ps.lo)
                ty = w.g0 + w.g1 - ty;  // tip is at the top of the gap for walls reaching down
            int pieces = s.in(2, 8);
            for (int k = 1; k <= pieces; ++k)
                appendXY(*P, s, path, px + (w.x - px) * k / pieces, py + (ty - py) * k / pieces, scratch, tmp);
            px = w.x;
            py = ty;
        }
    }
    else if (shape == 1 && !P->env.obs.empty())
    {
        // hug an obstacle: walk around it at a small margin
        const Obstacle &ob0 = P->env.obs[s.pick(P->env.obs.size())];
        double margin = s.real(0.05, 0.4);
        double a0 = s.real(0, 2 * PI), span = s.real(PI / 2, 1.9 * PI) * (s.flag() ? 1 : -1);
        int n = s.in(6, 24);
        for (int k = 0; k <= n; ++k)
        {
            double a = a0 + span * k / n, x, y;
            if (ob0.ball)
            {
                x = ob0.cx + (ob0.r + margin) * std::cos(a);
                y = ob0.cy + (ob0.r + margin) * std::sin(a);
            }
            else
            {
                // superellipse-like walk around the box
                double cx = 0.5 * (ob0.x0 + ob0.x1), cy = 0.5 * (ob0.y0 + ob0.y1), hx = 0.5 * (ob0.x1 - ob0.x0) + margin, hy = 0.5 * (ob0.y1 - ob0.y0) + margin;
                double ca = std::cos(a), sa = std::sin(a), sc = 1.0 / std::max(std::fabs(ca) / hx, std::fabs(sa) / hy);
                x = cx + ca * sc * 1.02;
                y = cy + sa * sc * 1.02;
            }
            appendXY(*P, s, path, x, y, scratch, tmp);
        }
    }
    else if (shape == 2)
    {
        if (s.flag())
            appendXY(*P, s, path, sx + s.real(-1, 1), sy + s.real(-1, 1), scratch, tmp);
    }
    else if (shape == 4)
    {
        // every segment has zero length: 2..5 copies of the start state
        int copies = s.in(1, 4);
        for (int k = 0; k < copies; ++k)
            path.append(P->starts[0]);
    }
    else
    {
        int n = s.in(1, 12);
        for (int k = 0; k < n; ++k)
        {
            if (shape == 3 && s.chance(64) && path.getStateCount() > 0)
            {
                // repeated state or a segment of length ~1e-9
                si->copyState(scratch, path.getState(path.getStateCount() - 1));
                if (s.flag())
                {
                    double x, y;
                    P->ps.xy(scratch, x, y);
                    appendXY(*P, s, path, x + 1e-9, y, scratch, tmp);
                }
                else
                    path.append(scratch);
                continue;
            }
            appendXY(*P, s, path, s.real(P->ps.lo, P->ps.hi), s.real(P->ps.lo, P->ps.hi), scratch, tmp);
        }
    }
    // optionally end at the goal
    bool endsAtGoal = false;
    if (shape != 4 && s.flag() && path.getStateCount() > 0 && motionOk(*P, path.getState(path.getStateCount() - 1), P->goals[0], tmp))
    {
        path.append(P->goals[0]);
        endsAtGoal = true;
    }
    const size_t n0 = path.getStateCount();
    VCHECK(c, path.check(), "C17/harness-input-not-valid", "harness bug: the generated input path does not pass the library's own check()");
    auto image = [&](const ob::State *st)
    {
        std::string b(P->ps.space->getSerializationLength(), '\0');
        P->ps.space->serialize(&b[0], st);
        return b;
    };
    const std::string imgFirst = image(path.getState(0)), imgLast = image(path.getState(n0 - 1));
    std::vector<std::string> imgs;
    for (size_t i = 0; i < n0; ++i)
        imgs.push_back(image(path.getState(i)));
    // objective
    size_t routine = s.weighted({3, 3, 3, 2, 2, 2, 4, 3, 1, 2, 2, 1, 2});
    const bool goalAware = routine == 6 || routine == 7 || routine == 8;
    int objKind = goalAware ? (int)s.weighted({3, 5, 1}) : (int)s.weighted({5, 2, 2});
    ob::OptimizationObjectivePtr obj;
    if (objKind == 0)
        obj = std::make_shared<ob::PathLengthOptimizationObjective>(si);
    else if (objKind == 1)
    {
        auto fc = std::make_shared<FieldCost>(si, &P->ps, s.real(0.2, 3), s.real(0.3, 2), s.real(0.3, 2));
        if (s.flag())
        {
            fc->ridgeA = s.real(2, 25);
            fc->ridgeX = s.real(P->ps.lo, P->ps.hi);
            fc->ridgeW = s.real(0.3, 1.5);
        }
        obj = fc;
    }
    else
        obj = std::make_shared<ob::MaximizeMinClearanceObjective>(si);
    const char *objN[] = {"length", "state-cost-integral", "max-min-clearance"};
    bool withGoal = endsAtGoal && (goalAware || s.flag());
    ob::GoalPtr goalForSimplifier;
    if (withGoal)
    {
        goalForSimplifier = P->pdef->getGoal();
        if (goalAware && s.chance(170))
        {
            // a sampleable goal with several states: the path's end plus up to 3 other valid states near it
            auto gs = std::make_shared<ob::GoalStates>(si);
            gs->addState(path.getState(path.getStateCount() - 1));
            double ex, ey;
            P->ps.xy(path.getState(path.getStateCount() - 1), ex, ey);
            int extra = s.in(1, 3);
            for (int k = 0; k < extra; ++k)
            {
                double x = std::min(P->ps.hi - 1e-6, std::max(P->ps.lo + 1e-6, ex + s.real(-3, 3))), y = std::min(P->ps.hi - 1e-6, std::max(P->ps.lo + 1e-6, ey + s.real(-3, 3)));
                P->ps.makeState(s, scratch, x, y);
                if (oracleValid(P->ps, P->env, scratch))
                    gs->addState(scratch);
            }
            gs->setThreshold(P->threshold);
            goalForSimplifier = gs;
            c.count("goal:multi-state(" + std::to_string(gs->getStateCount()) + ")");
        }
    }
    og::PathSimplifier ps(si, goalForSimplifier, obj);
    // Discretisation-independent cost: the integral and min-clearance objectives evaluate a motion at the validity resolution, so merely
    // inserting vertices changes their value by quadrature noise. The harness therefore re-evaluates both paths on one fine uniform grid.
    auto denseCost = [&](const og::PathGeometric &pp) -> double
    {
        if (objKind == 0)
            return pp.length();
        double acc = objKind == 2 ? 1e300 : 0;
        const double h = P->r() / 4;
        for (size_t i = 0; i + 1 < pp.getStateCount(); ++i)
        {
            double len = P->ps.space->distance(pp.getState(i), pp.getState(i + 1));
            unsigned steps = std::max(1u, (unsigned)std::ceil(len / h));
            double prev = obj->stateCost(pp.getState(i)).value();
            if (objKind == 2)
                acc = std::min(acc, prev);
            for (unsigned k = 1; k <= steps; ++k)
            {
                P->ps.space->interpolate(pp.getState(i), pp.getState(i + 1), (double)k / steps, tmp);
                double cur = obj->stateCost(tmp).value();
                if (objKind == 2)
                    acc = std::min(acc, cur);
                else
                    acc += 0.5 * (prev + cur) * len / steps;
                prev = cur;
            }
        }
        if (objKind == 2 && pp.getStateCount() == 1)
            acc = obj->stateCost(pp.getState(0)).value();
        return acc;
    };
    const double len0 = path.length();
    const ob::Cost cost0 = path.cost(obj);
    const double dense0 = denseCost(path);
    static const char *rn[] = {"reduceVertices", "partialShortcutPath", "ropeShortcutPath", "collapseCloseVertices", "smoothBSpline", "perturbPath", "findBetterGoal",
                               "simplify", "simplifyMax", "interpolate()", "interpolate(count)", "subdivide", "PathHybridization"};
    c.note("%s\n input: %s, %zu states, length %.6g, ends-at-goal=%d, objective=%s, routine=%s", P->str().c_str(), shapeName[shape], n0, len0, (int)endsAtGoal, objN[objKind],
           rn[routine]);
    c.count(std::string("routine:") + rn[routine]);
    c.count(std::string("input:") + shapeName[shape]);
    const std::string rkey = std::string("/") + rn[routine];
    c.context(std::string(rn[routine]) + "(" + objN[objKind] + ")");
    if (routine == 2 && objKind != 0)
    {
        std::string k = std::string("hang/ropeShortcutPath(") + objN[objKind] + ")";
        if (c.isKnown(k))
        {
            c.knownHits[k]++;
            throw Skip{"known"};
        }
    }
    if (routine == 5 && c.isKnown("C17/perturbPath-zero-length-segment"))
    {
        bool zeroSeg = !(len0 > 1e-6);
        for (size_t i = 0; i + 1 < n0; ++i)
            if (!(P->ps.space->distance(path.getState(i), path.getState(i + 1)) > 1e-12))
                zeroSeg = true;
        if (zeroSeg)
        {
            c.knownHits["C17/perturbPath-zero-length-segment"]++;
            throw Skip{"known"};
        }
    }
    bool changed = false, ret = false;
    bool lengthMonotone = false, costMonotone = false, endMayMove = false, densify = false;
    unsigned reqCount = 0;
    CountPTC ptc;
    og::PathGeometric out(path);
    switch (routine)
    {
        case 0:
            ret = ps.reduceVertices(out, (unsigned)s.in(0, 30), (unsigned)s.in(0, 10), s.real(0.05, 1.0));
            lengthMonotone = true;
            break;
        case 1:
            ret = ps.partialShortcutPath(out, (unsigned)s.in(0, 30), (unsigned)s.in(0, 10), s.real(0.05, 1.0), s.flag() ? 0.005 : s.real(0, 0.2));
            lengthMonotone = objKind == 0;
            costMonotone = true;
            break;
        case 2:
            ret = ps.ropeShortcutPath(out, s.flag() ? 1.0 : s.real(0.25, 3), s.flag() ? 0.1 : s.real(0.001, 0.5));
            costMonotone = true;
            lengthMonotone = objKind == 0;
            break;
        case 3:
            ret = ps.collapseCloseVertices(out, (unsigned)s.in(0, 30), (unsigned)s.in(0, 10));
            lengthMonotone = true;
            break;
        case 4:
            ps.smoothBSpline(out, (unsigned)s.in(1, 6), s.flag() ? 2.2e-16 : s.logreal(1e-6, 0.1));
            break;
        case 5:
            ret = ps.perturbPath(out, s.real(0.05, 2), (unsigned)s.in(0, 30), (unsigned)s.in(0, 10), s.flag() ? 0.005 : s.real(0, 0.2));
            costMonotone = true;
            break;
        case 6:
            ptc.limit = s.in(1, 200);
            ret = ps.findBetterGoal(out, ptc.make(), (unsigned)s.in(1, 12), s.real(0.05, 1.0), 0.005);
            endMayMove = withGoal;
            costMonotone = true;
            break;
        case 7:
            ptc.limit = s.in(0, 400);
            ret = ps.simplify(out, ptc.make(), s.flag());
            endMayMove = withGoal;
            break;
        case 8:
            ret = ps.simplifyMax(out);
            endMayMove = withGoal;
            break;
        case 9:
            out.interpolate();
            densify = true;
            break;
        case 10:
            reqCount = (unsigned)s.in(0, 60);
            out.interpolate(reqCount);
            densify = true;
            break;
        case 11:
            out.subdivide();
            densify = true;
            break;
        default:
        {
            // hybridize the input with 1-2 variants of itself
            og::PathHybridization hy(si, obj);
            auto p0 = std::make_shared<og::PathGeometric>(path);
            hy.recordPath(p0, s.flag());
            ob::Cost best = cost0;
            int extra = s.in(1, 2);
            for (int k = 0; k < extra; ++k)
            {
                auto pk = std::make_shared<og::PathGeometric>(path);
                og::PathSimplifier tmpPs(si);
                if (s.flag())
                    tmpPs.reduceVertices(*pk);
                else
                    pk->subdivide();
                hy.recordPath(pk, s.flag());
                ob::Cost ck = pk->cost(obj);
                if (obj->isCostBetterThan(ck, best))
                    best = ck;
            }
            hy.computeHybridPath();
            const og::PathGeometricPtr &hp = hy.getHybridPath();
            if (hp && hp->getStateCount() > 0)
            {
                ob::Cost hc = hp->cost(obj);
                double tol = objKind == 2 ? P->r() : 1e-6 * (1 + std::fabs(best.value()));
                bool worse = objKind == 2 ? hc.value() < best.value() - tol : hc.value() > best.value() + tol;
                VCHECK(c, !worse, "C17/hybrid-worse", "hybridized path cost %.9g is worse than the best recorded input %.9g (%s)", hc.value(), best.value(), objN[objKind]);
                out = *hp;
            }
            break;
        }
    }
    const size_t n1 = out.getStateCount();
    VCHECK(c, n1 > 0, "C17/emptied" + rkey, "%s left an empty path (input had %zu states)", rn[routine], n0);
    // changed?
    changed = n1 != n0;
    for (size_t i = 0; i < std::min(n0, n1) && !changed; ++i)
        changed = image(out.getState(i)) != imgs[i];
    // endpoints
    VCHECK(c, image(out.getState(0)) == imgFirst, "C17/first-state" + rkey, "%s changed the first state of the path", rn[routine]);
    if (image(out.getState(n1 - 1)) != imgLast)
    {
        bool okEnd = endMayMove && goalForSimplifier && goalForSimplifier->isSatisfied(out.getState(n1 - 1));
        VCHECK(c, okEnd, "C17/last-state" + rkey, "%s changed the last state of the path%s", rn[routine], endMayMove ? " to a state that does not satisfy the goal" : "");
    }
    // validity of what was introduced
    PathVerdict v = checkPath(*P, out, false, true, false);
    c.stat("invalid-run/r", v.worstRun);
    // the combined routines answer false when they could not leave a valid path behind ("returns false iff the simplified path is not
    // valid"): the statement promises validity when they report success
    const bool combinedReportedFailure = (routine == 7 || routine == 8) && !ret;
    if (combinedReportedFailure)
        c.count(v.ok() ? "combined:returned-false(path fine)" : "combined:returned-false(path invalid, as reported)");
    if (!v.ok() && !combinedReportedFailure)
        c.failOrKnown("C17/" + v.key + rkey, vf::fmt("%s (%s, %s): output %s (routine returned %s)", rn[routine], shapeName[shape], objN[objKind], v.msg.c_str(), ret ? "true" : "false"));
    const double len1 = out.length();
    if (lengthMonotone && P->ps.space->isMetricSpace())
    {
        // SE(3): the SO(3) distance is quantised at 4.5e-5 (DESIGN section 3), so the triangle inequality - which is what makes a shortcut
        // shorter - only holds up to one grain per distance evaluation involved
        const double grain = P->ps.kind == SP_SE3 ? 4.5e-5 * (double)(n0 + out.getStateCount()) : 0;
        VCHECK(c, len1 <= len0 * (1 + 1e-9) + 1e-9 + grain, "C17/longer" + rkey, "%s returned a longer path: %.9g -> %.9g", rn[routine], len0, len1);
    }
    if (costMonotone)
    {
        double dense1 = denseCost(out);
        // min-clearance: the library samples a motion at the validity resolution; between two samples the clearance (slope <= 1) can be up
        // to r/2 lower than at the samples, so decisions taken on sampled values are honoured up to r
        double tol = objKind == 2 ? P->r() : 2e-3 * (1 + std::fabs(dense0));
        c.stat(std::string("cost-change(rel):") + objN[objKind], objKind == 2 ? (dense0 - dense1) / (1 + std::fabs(dense0)) : (dense1 - dense0) / (1 + std::fabs(dense0)));
        bool worse = objKind == 2 ? dense1 < dense0 - tol : dense1 > dense0 + tol;
        // The routine decides with the objective's own motion cost, a quadrature at the validity resolution; at a coarse resolution that differs
        // from the fine grid by more than any fixed tolerance (seen at 10x the quick case count: findBetterGoal, resolution 0.56, ridge of width
        // 0.3: +0.4 % on the fine grid, an improvement in the library's own terms). "Worse under its own objective" is therefore only asserted
        // when the path is worse under both evaluations - the library's and the discretisation-independent one.
        if (worse && objKind != 0)
        {
            const ob::Cost cost1 = out.cost(obj);
            const bool libWorse = obj->isCostBetterThan(cost0, cost1) && std::fabs(cost1.value() - cost0.value()) > 1e-9 * (1 + std::fabs(cost0.value()));
            if (!libWorse)
            {
                worse = false;
                c.count("cost:worse-on-fine-grid-only(quadrature)");
            }
        }
        if (worse)
            c.failOrKnown("C17/cost-worse" + rkey + "(" + objN[objKind] + ")", vf::fmt("%s made the path worse under its own objective (%s, evaluated on a uniform grid of r/4): %.9g -> %.9g",
                                                                                       rn[routine], objN[objKind], dense0, dense1));
    }
    if ((routine == 7 || routine == 8) && ret)
        VCHECK(c, out.check(), "C17/simplify-true-but-invalid", "%s returned true but path.check() fails", rn[routine]);
    if (routine == 7)
    {
        // The combined routine makes passes, and between two evaluations of the termination condition it modifies the path once: whether an
        // interruption leaves an unchecked path behind depends on the exact evaluation at which the condition fires. A window of 16 consecutive
        // firing indices (derived from the decoded limit, no further choice bytes) is therefore swept on copies of the same input path.
        const long base = ptc.limit % 96;
        for (long k = base; k < base + 16; ++k)
        {
            og::PathGeometric cp(path);
            og::PathSimplifier ps2(si, goalForSimplifier, obj);
            CountPTC p2;
            p2.limit = k;
            bool r2 = ps2.simplify(cp, p2.make(), (k & 1) != 0);
            if (r2)
                VCHECK(c, cp.check(), "C17/simplify-true-but-invalid", "simplify (termination condition firing at evaluation %ld) returned true but path.check() fails", k);
            VCHECK(c, cp.getStateCount() > 0 && image(cp.getState(0)) == imgFirst, "C17/first-state-changed/simplify", "simplify (firing index %ld) changed the first state", k);
        }
        {
            // how many evaluations an uninterrupted run makes on this input (more than ~25 = more than one pass)
            og::PathGeometric cp(path);
            og::PathSimplifier ps2(si, goalForSimplifier, obj);
            CountPTC p2;
            p2.limit = 1000000;
            ps2.simplify(cp, p2.make(), false);
            long ev = p2.calls->load();
            c.stat("simplify:evaluations-uninterrupted", (double)ev);
            c.count(ev > 60 ? "simplify:>=3-passes" : ev > 28 ? "simplify:2-passes" : "simplify:1-pass");
            // inputs on which the routine makes several passes: every firing index of the later passes, not only a window
            if (ev > 28)
                for (long k = 20; k <= std::min(ev, 140L); ++k)
                {
                    if (k >= base && k < base + 16)
                        continue;
                    og::PathGeometric cq(path);
                    og::PathSimplifier ps3(si, goalForSimplifier, obj);
                    CountPTC p3;
                    p3.limit = k;
                    if (ps3.simplify(cq, p3.make(), false))
                        VCHECK(c, cq.check(), "C17/simplify-true-but-invalid", "simplify (termination condition firing at evaluation %ld of %ld) returned true but path.check() fails", k,
                               ev);
                    else
                        c.count("simplify:interrupted-in-a-later-pass-and-reported-an-invalid-path");
                }
        }
        c.count("simplify:firing-index-sweep");
    }
    if (densify)
    {
        // original vertices present in order
        size_t j = 0;
        for (size_t i = 0; i < n1 && j < n0; ++i)
            if (image(out.getState(i)) == imgs[j])
                ++j;
        VCHECK(c, j == n0, "C17/densify-lost-vertex" + rkey, "%s: only %zu of the %zu original vertices are still present in order", rn[routine], j, n0);
        // SO(3) distances are quantised at 4.5e-5 (DESIGN section 3): one grain per output segment
        VCHECK(c, std::fabs(len1 - len0) <= 1e-9 * (1 + len0) + (P->ps.kind == SP_SE3 ? 1e-4 * (double)n1 : 0), "C17/densify-length" + rkey, "%s changed the path length %.12g -> %.12g",
               rn[routine], len0, len1);
        if (routine == 10)
        {
            size_t want = reqCount >= n0 ? reqCount : n0;
            if (n0 < 2)
                want = n0;
            VCHECK(c, n1 == want, "C17/interpolate-count", "interpolate(%u) on a path of %zu states (length %.6g) produced %zu states, expected %zu", reqCount, n0, len0, n1, want);
        }
        if (routine == 11 && n0 >= 2)
            VCHECK(c, n1 == 2 * n0 - 1, "C17/subdivide-count", "subdivide() on %zu states produced %zu, expected %zu", n0, n1, 2 * n0 - 1);
    }
    c.count(changed ? "output:changed" : "output:unchanged");
    c.nontrivial = changed || shape == 3;
}

#include "../core/runner.h"
