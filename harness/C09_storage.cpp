// C09 — copies and persisted data reproduce states and planner graphs exactly.
#include "../gen/spaces.h"
#include "ompl/base/PlannerData.h"
#include "ompl/base/PlannerDataStorage.h"
#include "ompl/base/ScopedState.h"
#include "ompl/base/SpaceInformation.h"
#include "ompl/base/StateStorage.h"
#include "ompl/control/PlannerData.h"
#include "ompl/control/PlannerDataStorage.h"
#include "ompl/control/SpaceInformation.h"
#include "ompl/control/spaces/RealVectorControlSpace.h"
#include "ompl/util/Console.h"
#include <sstream>
#include <boost/serialization/export.hpp>

// documented requirement for storing graphs with controls (control/PlannerData.h)
BOOST_CLASS_EXPORT(ompl::control::PlannerDataEdgeControl);

namespace ob = ompl::base;
namespace oc = ompl::control;
using namespace gen;

namespace
{
    struct Capture : ompl::msg::OutputHandler
    {
        int errors = 0, warns = 0;
        std::string last;
        void log(const std::string &text, ompl::msg::LogLevel level, const char *, int) override
        {
            if (level >= ompl::msg::LOG_WARN)
                last = text;
            if (level == ompl::msg::LOG_ERROR)
                ++errors;
            if (level == ompl::msg::LOG_WARN)
                ++warns;
        }
    };
    Capture g_cap;

    // a user-style space with zero serialization length (its state carries nothing persistent)
    class EmptyUserSpace : public ob::StateSpace
    {
    public:
        struct StateType : ob::State
        {
            int scratch = 0;
        };
        EmptyUserSpace()
        {
            setName("EmptyUser" + getName());
        }
        unsigned int getDimension() const override
        {
            return 0;
        }
        double getMaximumExtent() const override
        {
            return 1;
        }
        double getMeasure() const override
        {
            return 1;
        }
        void enforceBounds(ob::State *) const override
        {
        }
        bool satisfiesBounds(const ob::State *) const override
        {
            return true;
        }
        void copyState(ob::State *, const ob::State *) const override
        {
        }
        double distance(const ob::State *, const ob::State *) const override
        {
            return 0;
        }
        bool equalStates(const ob::State *, const ob::State *) const override
        {
            return true;
        }
        void interpolate(const ob::State *, const ob::State *, double, ob::State *) const override
        {
        }
        ob::StateSamplerPtr allocDefaultStateSampler() const override
        {
            return nullptr;
        }
        ob::State *allocState() const override
        {
            return new StateType();
        }
        void freeState(ob::State *s) const override
        {
            delete static_cast<StateType *>(s);
        }
    };

    std::string famKey(const Desc &d)
    {
        return kindName(d.kind);
    }
}  // namespace

#define VF_HAS_PROCESS_INIT
void vf::process_init()
{
    ompl::msg::useOutputHandler(&g_cap);
    ompl::msg::setLogLevel(ompl::msg::LOG_WARN);
}

vf::Config vf::config()
{
    Config c;
    c.property = "C09";
    c.maxLen = 900;
    c.batch = 500;
    return c;
}

static void stateLaws(vf::Src &s, vf::Ctx &c)
{
    SpaceOpts o;
    o.ctx = &c;
    o.allowUnboundedTime = true;
    Desc d = genSpace(s, o);
    lateGrowth(d, c);
    setupOrSkip(d, c);
    auto &sp = d.space;
    StateHolder h(sp);
    ob::State *a = h.alloc(), *b = h.alloc();
    genStateInto(s, d, a);
    genStateInto(s, d, b);
    c.note("state laws on %s: %s", d.name().c_str(), show(d, a).c_str());
    c.count(std::string("space:") + kindName(d.kind));
    const std::string img = serialImage(sp, a);
    VCHECK(c, img.size() == sp->getSerializationLength(), "C09/harness", "image size");
    // copyState
    sp->copyState(b, a);
    VCHECK(c, sp->equalStates(a, b) && serialImage(sp, b) == img, "C09/copyState/" + famKey(d), "%s: copyState result differs: %s vs %s", d.name().c_str(),
           show(d, a).c_str(), show(d, b).c_str());
    // cloneState
    {
        ob::State *cl = sp->cloneState(a);
        bool ok = sp->equalStates(a, cl) && serialImage(sp, cl) == img;
        std::string shown = show(d, cl);
        sp->freeState(cl);
        VCHECK(c, ok, "C09/cloneState/" + famKey(d), "%s: cloneState result differs: %s vs %s", d.name().c_str(), show(d, a).c_str(), shown.c_str());
    }
    // ScopedState copy construction / assignment
    {
        ob::ScopedState<> ss(sp);
        sp->copyState(ss.get(), a);
        ob::ScopedState<> copy(ss);
        ob::ScopedState<> assigned(sp);
        assigned = ss;
        VCHECK(c, serialImage(sp, copy.get()) == img && sp->equalStates(copy.get(), a), "C09/ScopedState-copy/" + famKey(d), "%s: ScopedState copy differs",
               d.name().c_str());
        VCHECK(c, serialImage(sp, assigned.get()) == img, "C09/ScopedState-assign/" + famKey(d), "%s: ScopedState assignment differs", d.name().c_str());
        VCHECK(c, copy == ss, "C09/ScopedState-equal/" + famKey(d), "%s: ScopedState copy does not compare equal", d.name().c_str());
    }
    // serialize -> deserialize
    {
        genStateInto(s, d, b);
        std::string buf = img;
        if (!buf.empty())
            sp->deserialize(b, buf.data());
        else
            sp->copyState(b, a);
        VCHECK(c, sp->equalStates(a, b) && serialImage(sp, b) == img, "C09/serialize-roundtrip/" + famKey(d), "%s: deserialize(serialize(s)) = %s, s = %s",
               d.name().c_str(), show(d, b).c_str(), show(d, a).c_str());
    }
    // copyToReals -> copyFromReals: applies to the values the space exposes
    {
        std::vector<double> reals;
        sp->copyToReals(reals, a);
        sp->copyState(b, a);  // non-real parts (discrete values) are not covered by the law: start from a copy
        // perturb the real-valued leaves of b, then restore them from the reals
        walk(d, b, 1.0,
             [&](const Desc &l, ob::State *x, double)
             {
                 if (l.kind == RV)
                     for (size_t i = 0; i < l.lo.size(); ++i)
                         x->as<ob::RealVectorStateSpace::StateType>()->values[i] = 0.125;
                 else if (l.kind == SO2)
                     x->as<ob::SO2StateSpace::StateType>()->value = 0.125;
                 else if (l.kind == SO3)
                     x->as<ob::SO3StateSpace::StateType>()->setIdentity();
                 else if (l.kind == TIME)
                     x->as<ob::TimeStateSpace::StateType>()->position = 0.125;
             });
        sp->copyFromReals(b, reals);
        VCHECK(c, sp->equalStates(a, b) && serialImage(sp, b) == img, "C09/reals-roundtrip/" + famKey(d), "%s: copyFromReals(copyToReals(s)) = %s, s = %s (%zu reals)",
               d.name().c_str(), show(d, b).c_str(), show(d, a).c_str(), reals.size());
        c.count(reals.empty() ? "reals:none-exposed(vacuous)" : "reals:exposed");
        // the index-based interface to the same values: getValueAddressAtIndex(k) is documented to enumerate the values in the order of
        // getValueLocations() / copyToReals(), ends with nullptr, and is what ScopedState::reals(), operator[] and operator=(vector) use
        {
            for (size_t k = 0; k < reals.size(); ++k)
            {
                const double *pv = sp->getValueAddressAtIndex(a, (unsigned)k);
                VCHECK(c, pv != nullptr, "C09/value-index/" + famKey(d), "%s: getValueAddressAtIndex(%zu) is null although the state exposes %zu reals", d.name().c_str(), k, reals.size());
                VCHECK(c, std::memcmp(pv, &reals[k], sizeof(double)) == 0, "C09/value-index/" + famKey(d), "%s: getValueAddressAtIndex(%zu) yields %.17g, copyToReals()[%zu] = %.17g",
                       d.name().c_str(), k, *pv, k, reals[k]);
            }
            VCHECK(c, sp->getValueAddressAtIndex(a, (unsigned)reals.size()) == nullptr, "C09/value-index/" + famKey(d), "%s: getValueAddressAtIndex(%zu) is not null past the %zu exposed reals",
                   d.name().c_str(), reals.size(), reals.size());
            ob::ScopedState<> ss(sp);
            sp->copyState(ss.get(), a);
            std::vector<double> viaScoped = ss.reals();
            VCHECK(c, viaScoped.size() == reals.size() && (reals.empty() || std::memcmp(viaScoped.data(), reals.data(), reals.size() * sizeof(double)) == 0),
                   "C09/scoped-reals/" + famKey(d), "%s: ScopedState::reals() gives %zu values, copyToReals() %zu (or they differ)", d.name().c_str(), viaScoped.size(), reals.size());
            if (!reals.empty())
            {
                ob::ScopedState<> tt(sp);
                sp->copyState(tt.get(), b);  // b == a at this point (also in the parts that expose no reals)
                for (size_t k = 0; k < reals.size(); ++k)
                    tt[(unsigned)k] = 0.125;
                tt = viaScoped;  // operator=(const std::vector<double>&)
                VCHECK(c, serialImage(sp, tt.get()) == img, "C09/scoped-reals/" + famKey(d), "%s: assigning reals() back through ScopedState::operator=(vector) gives %s, expected %s",
                       d.name().c_str(), show(d, tt.get()).c_str(), show(d, a).c_str());
            }
        }
    }
    int md = 0;
    std::function<void(const Desc &)> rec = [&](const Desc &q)
    {
        md = std::max(md, q.depth);
        for (auto &t : q.subs)
            rec(t);
    };
    rec(d);
    c.count("state-laws");
    c.nontrivial = md >= 2 || d.kind == WRAPPER;
}

// partial copies between related spaces sharing named subspaces
static void partialCopy(vf::Src &s, vf::Ctx &c)
{
    SpaceOpts o;
    o.ctx = &c;
    o.maxDepth = 0;  // pool of atomic named subspaces
    std::vector<Desc> pool;
    int np = s.in(2, 6);
    for (int i = 0; i < np; ++i)
    {
        if (s.chance(100))
        {
            // value-less atomic subspaces are frequent on purpose: compounds made only of them expose no real values at all
            Desc d;
            d.kind = DISCRETE;
            d.depth = 1;
            d.dlo = s.in(-3, 3);
            d.dhi = d.dlo + s.in(1, 9);
            d.space = std::make_shared<ob::DiscreteStateSpace>(d.dlo, d.dhi);
            pool.push_back(d);
        }
        else
            pool.push_back(genSpace(s, o, 1));
    }
    auto build = [&](std::vector<int> &members, bool &nested, int &n1, int &n2) -> Desc
    {
        Desc d;
        d.kind = COMPOUND;
        auto sp = std::make_shared<ob::CompoundStateSpace>();
        members.clear();
        for (int i = 0; i < np; ++i)
            if (s.chance(150))
                members.push_back(i);
        if (members.empty())
            members.push_back((int)s.pick(np));
        // optional fresh component that the other space cannot share
        nested = members.size() >= 3 && s.chance(80);
        n1 = n2 = -1;
        size_t start = 0;
        if (nested)
        {
            Desc inner;
            inner.kind = COMPOUND;
            inner.depth = 1;
            auto isp = std::make_shared<ob::CompoundStateSpace>();
            for (int k = 0; k < 2; ++k)
            {
                isp->addSubspace(pool[members[k]].space, 1.0);
                inner.subs.push_back(pool[members[k]]);
                inner.w.push_back(1.0);
            }
            inner.space = isp;
            sp->addSubspace(isp, 1.0);
            d.subs.push_back(inner);
            d.w.push_back(1.0);
            start = 2;
        }
        for (size_t k = start; k < members.size(); ++k)
        {
            sp->addSubspace(pool[members[k]].space, 1.0);
            d.subs.push_back(pool[members[k]]);
            d.w.push_back(1.0);
        }
        d.space = sp;
        return d;
    };
    std::vector<int> ma, mb;
    bool na, nb;
    int x1, x2;
    Desc A = build(ma, na, x1, x2), B = build(mb, nb, x1, x2);
    setupOrSkip(A, c);
    setupOrSkip(B, c);
    StateHolder ha(A.space), hb(B.space);
    ob::State *src = ha.alloc(), *dst = hb.alloc();
    genStateInto(s, A, src);
    genStateInto(s, B, dst);
    // leaf images by pool index
    auto leafImages = [&](const Desc &D, const ob::State *st)
    {
        std::map<std::string, std::string> r;  // subspace name -> image
        std::function<void(const Desc &, const ob::State *)> rec = [&](const Desc &q, const ob::State *x)
        {
            bool atomic = false;
            for (auto &p : pool)
                if (p.space.get() == q.space.get())
                    atomic = true;
            if (atomic)
                r[q.space->getName()] = serialImage(q.space, x);
            else
                for (size_t i = 0; i < q.subs.size(); ++i)
                    rec(q.subs[i], static_cast<const ob::CompoundState *>(x)->components[i]);
        };
        rec(D, st);
        return r;
    };
    auto srcImgs = leafImages(A, src);
    auto before = leafImages(B, dst);
    c.note("copyStateData %s <- %s", B.name().c_str(), A.name().c_str());
    ob::AdvancedStateCopyOperation res = ob::copyStateData(B.space, dst, A.space, src);
    auto after = leafImages(B, dst);
    size_t common = 0;
    for (auto &kv : after)
    {
        auto it = srcImgs.find(kv.first);
        if (it != srcImgs.end())
        {
            ++common;
            VCHECK(c, kv.second == it->second, "C09/copyStateData-common", "common subspace %s was not transferred", kv.first.c_str());
        }
        else
            VCHECK(c, kv.second == before[kv.first], "C09/copyStateData-untouched", "subspace %s is not in the source but was modified", kv.first.c_str());
    }
    ob::AdvancedStateCopyOperation want = common == 0 ? ob::NO_DATA_COPIED : common == srcImgs.size() ? ob::ALL_DATA_COPIED : ob::SOME_DATA_COPIED;
    VCHECK(c, res == want, "C09/copyStateData-return", "copyStateData returned %d, expected %d (%zu of %zu source subspaces have a home)", (int)res, (int)want, common,
           srcImgs.size());
    // the name-driven forms: getCommonSubspaces() lists exactly the shared subspaces, and copying that list transfers them
    {
        std::set<std::string> expectNames;
        for (auto &kv : after)
            if (srcImgs.count(kv.first))
                expectNames.insert(kv.first);
        std::vector<std::string> listed;
        B.space->getCommonSubspaces(A.space, listed);
        std::set<std::string> got(listed.begin(), listed.end());
        VCHECK(c, got == expectNames, "C09/getCommonSubspaces", "getCommonSubspaces() lists %zu subspaces, %zu are shared (%s <- %s)", got.size(), expectNames.size(),
               B.name().c_str(), A.name().c_str());
        ob::State *dst2 = hb.alloc();
        genStateInto(s, B, dst2);
        auto before2 = leafImages(B, dst2);
        std::vector<std::string> names(expectNames.begin(), expectNames.end());
        bool extra = s.flag();
        if (extra)
            names.push_back("no-such-subspace");
        ob::AdvancedStateCopyOperation r2 = ob::copyStateData(B.space, dst2, A.space, src, names);
        auto after2 = leafImages(B, dst2);
        for (auto &kv : after2)
        {
            auto it = srcImgs.find(kv.first);
            if (it != srcImgs.end())
                VCHECK(c, kv.second == it->second, "C09/copyStateData-named-common", "named copy did not transfer the listed common subspace %s", kv.first.c_str());
            else
                VCHECK(c, kv.second == before2[kv.first], "C09/copyStateData-named-untouched", "named copy modified subspace %s, which is not in the source", kv.first.c_str());
        }
        size_t copied = expectNames.size();
        ob::AdvancedStateCopyOperation want2 = copied == names.size() ? ob::ALL_DATA_COPIED : copied > 0 ? ob::SOME_DATA_COPIED : ob::NO_DATA_COPIED;
        VCHECK(c, r2 == want2, "C09/copyStateData-named-return", "named copyStateData returned %d, expected %d (%zu of %zu listed names exist on both sides)", (int)r2, (int)want2,
               copied, names.size());
    }
    c.count("partial-copy");
    c.count(common == 0 ? "partial-copy:none" : common == srcImgs.size() ? "partial-copy:all" : "partial-copy:some");
    c.nontrivial = common > 0 && common < srcImgs.size();
}

static void stateStorage(vf::Src &s, vf::Ctx &c)
{
    SpaceOpts o;
    o.ctx = &c;
    Desc d = genSpace(s, o);
    bool userSpace = s.chance(16);
    if (userSpace)
    {
        d = Desc();
        d.kind = COMPOUND;
        auto sp = std::make_shared<ob::CompoundStateSpace>();
        Desc sub = genSpace(s, o, 1);
        sp->addSubspace(sub.space, 1.0);
        d.subs.push_back(sub);
        d.w.push_back(1.0);
        sp->addSubspace(std::make_shared<EmptyUserSpace>(), 1.0);  // last component, invisible to the descriptor walk
        d.space = sp;
        c.count("state-storage:with-zero-length-user-subspace");
    }
    else
        lateGrowth(d, c);
    setupOrSkip(d, c);
    auto &sp = d.space;
    StateHolder h(sp);
    ob::StateStorage st(sp);
    int n = s.in(0, 12);
    std::vector<std::string> imgs;
    for (int i = 0; i < n; ++i)
    {
        ob::State *x = h.alloc();
        genStateInto(s, d, x);
        st.addState(x);
        imgs.push_back(serialImage(sp, x));
    }
    std::stringstream ss(std::ios::in | std::ios::out | std::ios::binary);
    st.store(ss);
    std::string bytes = ss.str();
    c.note("StateStorage on %s: %d states, %zu bytes", d.name().c_str(), n, bytes.size());
    // round trip
    {
        ob::StateStorage ld(sp);
        std::stringstream in(bytes, std::ios::in | std::ios::binary);
        g_cap.errors = 0;
        ld.load(in);
        VCHECK(c, g_cap.errors == 0, "C09/state-storage-roundtrip-error", "loading an intact stream logged an error");
        VCHECK(c, ld.size() == (size_t)n, "C09/state-storage-count", "stored %d states, loaded %zu", n, ld.size());
        for (int i = 0; i < n; ++i)
            VCHECK(c, serialImage(sp, ld.getState(i)) == imgs[i], "C09/state-storage-state", "state %d differs after the round trip", i);
    }
    // every truncation offset
    size_t truncInsideStates = 0;
    for (size_t len = 0; len < bytes.size(); ++len)
    {
        ob::StateStorage ld(sp);
        std::stringstream in(bytes.substr(0, len), std::ios::in | std::ios::binary);
        g_cap.errors = g_cap.warns = 0;
        ld.load(in);
        VCHECK(c, g_cap.errors + g_cap.warns > 0, "C09/state-storage-truncation-silent", "stream truncated to %zu of %zu bytes was loaded without any report (%zu states)", len,
               bytes.size(), ld.size());
        VCHECK(c, ld.size() <= (size_t)n, "C09/state-storage-truncation-extra", "truncated stream produced %zu states, only %d were stored", ld.size(), n);
        for (size_t i = 0; i < ld.size(); ++i)
            VCHECK(c, serialImage(sp, ld.getState(i)) == imgs[i], "C09/state-storage-truncation-foreign", "truncated stream (%zu bytes) produced a state that was not stored",
                   len);
        if (ld.size() > 0)
            ++truncInsideStates;
        c.count("fault:truncation-offsets(state storage)");
    }
    // foreign signature
    {
        Desc other = genSpace(s, o);
        try
        {
            other.space->setup();
            std::vector<int> s1, s2;
            sp->computeSignature(s1);
            other.space->computeSignature(s2);
            if (s1 != s2)
            {
                ob::StateStorage ld(other.space);
                std::stringstream in(bytes, std::ios::in | std::ios::binary);
                g_cap.errors = 0;
                ld.load(in);
                VCHECK(c, ld.size() == 0 && g_cap.errors > 0, "C09/state-storage-foreign-signature", "a stream of %s was accepted by %s (%zu states, %d errors logged)",
                       d.name().c_str(), other.name().c_str(), ld.size(), g_cap.errors);
                c.count("fault:foreign-signature(state storage)");
            }
        }
        catch (const ompl::Exception &)
        {
        }
    }
    c.count("state-storage");
    c.nontrivial = n >= 2 && truncInsideStates > 0;
}

static void plannerData(vf::Src &s, vf::Ctx &c)
{
    SpaceOpts o;
    o.ctx = &c;
    Desc d = genSpace(s, o);
    lateGrowth(d, c);
    setupOrSkip(d, c);
    auto &sp = d.space;
    bool control = s.chance(96);
    ob::SpaceInformationPtr si;
    oc::SpaceInformationPtr csi;
    oc::ControlSpacePtr cspace;
    unsigned cdim = 0;
    if (control)
    {
        cdim = (unsigned)s.in(1, 3);
        auto cs = std::make_shared<oc::RealVectorControlSpace>(sp, cdim);
        ob::RealVectorBounds cb(cdim);
        cb.setLow(-1);
        cb.setHigh(1);
        cs->setBounds(cb);
        cspace = cs;
        csi = std::make_shared<oc::SpaceInformation>(sp, cspace);
        si = csi;
    }
    else
        si = std::make_shared<ob::SpaceInformation>(sp);
    StateHolder h(sp);
    std::shared_ptr<ob::PlannerData> pd = control ? std::shared_ptr<ob::PlannerData>(new oc::PlannerData(csi)) : std::make_shared<ob::PlannerData>(si);
    struct V
    {
        std::string img;
        int tag;
        bool start, goal;
    };
    std::vector<V> model;
    int nv = s.in(0, 14);
    int starts = 0, goals = 0, both = 0, removed = 0;
    std::vector<oc::Control *> controls;
    for (int i = 0; i < nv; ++i)
    {
        ob::State *x = h.alloc();
        if (!model.empty() && s.chance(32))
            sp->deserialize(x, model[s.pick(model.size())].img.data());  // duplicate state value, distinct vertex
        else
            genStateInto(s, d, x);
        int tag = s.in(0, 5);
        size_t kind = s.weighted({6, 2, 2, 2});
        ob::PlannerDataVertex v(x, tag);
        if (kind == 1)
            pd->addStartVertex(v);
        else if (kind == 2)
            pd->addGoalVertex(v);
        else if (kind == 3)
        {
            pd->addStartVertex(v);
            pd->markGoalState(x);
        }
        else
            pd->addVertex(v);
        model.push_back({serialImage(sp, x), tag, kind == 1 || kind == 3, kind == 2 || kind == 3});
    }
    // marks set later, on vertices in arbitrary index order
    {
        int late = nv >= 2 ? (int)s.weighted({4, 2, 2, 1}) : 0;
        for (int i = 0; i < late; ++i)
        {
            unsigned idx = (unsigned)s.pick(model.size());
            const ob::State *st = pd->getVertex(idx).getState();
            if (s.flag())
            {
                pd->markGoalState(st);
                model[idx].goal = true;
            }
            else
            {
                pd->markStartState(st);
                model[idx].start = true;
            }
            c.count("planner-data:late-mark");
        }
        for (unsigned i = 0; i < model.size(); ++i)
            VCHECK(c, pd->isStartVertex(i) == model[i].start && pd->isGoalVertex(i) == model[i].goal, "C09/planner-data-marks-before-store",
                   "vertex %u: isStartVertex=%d isGoalVertex=%d, marked start=%d goal=%d (before anything is stored)", i, (int)pd->isStartVertex(i),
                   (int)pd->isGoalVertex(i), (int)model[i].start, (int)model[i].goal);
    }
    struct E
    {
        double w;
        std::vector<double> ctrl;
        double dur;
    };
    std::map<std::pair<unsigned, unsigned>, E> edges;
    int ne = nv >= 2 ? s.in(0, 20) : 0;
    for (int i = 0; i < ne; ++i)
    {
        unsigned a = (unsigned)s.pick(nv), b = (unsigned)s.pick(nv);
        if (a == b || edges.count({a, b}))
            continue;
        static const double ws[] = {1.0, 0.0, 2.5, 1e-300, 1e300};
        size_t wk = s.weighted({4, 1, 3, 1, 1, 1});
        double w = wk < 5 ? ws[wk] : std::numeric_limits<double>::infinity();
        if (wk == 2)
            w = s.real(0, 100);
        E e{w, {}, 0};
        bool ok;
        if (control)
        {
            oc::Control *ctl = cspace->allocControl();
            controls.push_back(ctl);
            for (unsigned k = 0; k < cdim; ++k)
            {
                double v = s.real(-1, 1);
                ctl->as<oc::RealVectorControlSpace::ControlType>()->values[k] = v;
                e.ctrl.push_back(v);
            }
            e.dur = s.in(1, 20) * 0.05;
            ok = pd->addEdge(a, b, oc::PlannerDataEdgeControl(ctl, e.dur), ob::Cost(w));
        }
        else
            ok = pd->addEdge(a, b, ob::PlannerDataEdge(), ob::Cost(w));
        if (ok)
            edges[{a, b}] = e;
    }
    // remove a few vertices (indices above shift down, incident edges disappear)
    int nrem = nv >= 3 ? (int)s.weighted({5, 2, 1}) : 0;
    for (int r = 0; r < nrem; ++r)
    {
        unsigned idx = (unsigned)s.pick(model.size());
        if (!pd->removeVertex(idx))
            continue;
        ++removed;
        model.erase(model.begin() + idx);
        std::map<std::pair<unsigned, unsigned>, E> ne2;
        for (auto &kv : edges)
        {
            if (kv.first.first == idx || kv.first.second == idx)
                continue;
            unsigned a = kv.first.first - (kv.first.first > idx), b = kv.first.second - (kv.first.second > idx);
            ne2[{a, b}] = kv.second;
        }
        edges.swap(ne2);
    }
    for (auto &m : model)
    {
        starts += m.start;
        goals += m.goal;
        both += m.start && m.goal;
    }
    c.note("%s PlannerData on %s: %zu vertices (%d start, %d goal, %d both, %d removed), %zu edges", control ? "control" : "geometric", d.name().c_str(),
           model.size(), starts, goals, both, removed, edges.size());
    // the harness's model must agree with the source graph before anything is stored (guards the model itself)
    VCHECK(c, pd->numVertices() == model.size() && pd->numEdges() == edges.size(), "C09/harness-model", "model out of sync: %u/%zu vertices, %u/%zu edges",
           pd->numVertices(), model.size(), pd->numEdges(), edges.size());
    std::stringstream ss(std::ios::in | std::ios::out | std::ios::binary);
    ob::PlannerDataStorage gs;
    oc::PlannerDataStorage cs;
    ob::PlannerDataStorage &storage = control ? static_cast<ob::PlannerDataStorage &>(cs) : gs;
    g_cap.errors = 0;
    bool stored = storage.store(*pd, ss);
    VCHECK(c, stored && g_cap.errors == 0, "C09/planner-data-store", "store() failed on a valid graph: %s", g_cap.last.c_str());
    std::string bytes = ss.str();
    auto fresh = [&]() { return control ? std::shared_ptr<ob::PlannerData>(new oc::PlannerData(csi)) : std::make_shared<ob::PlannerData>(si); };
    auto compare = [&](ob::PlannerData &ld)
    {
        VCHECK(c, ld.numVertices() == model.size(), "C09/planner-data-vertex-count", "stored %zu vertices, loaded %u", model.size(), ld.numVertices());
        VCHECK(c, ld.numEdges() == edges.size(), "C09/planner-data-edge-count", "stored %zu edges, loaded %u", edges.size(), ld.numEdges());
        for (unsigned i = 0; i < model.size(); ++i)
        {
            const ob::PlannerDataVertex &v = ld.getVertex(i);
            VCHECK(c, serialImage(sp, v.getState()) == model[i].img, "C09/planner-data-state", "vertex %u: state differs after the round trip", i);
            VCHECK(c, v.getTag() == model[i].tag, "C09/planner-data-tag", "vertex %u: tag %d, stored %d", i, v.getTag(), model[i].tag);
            VCHECK(c, ld.isStartVertex(i) == model[i].start, "C09/planner-data-start-mark", "vertex %u: start mark %d, stored %d", i, (int)ld.isStartVertex(i),
                   (int)model[i].start);
            if (ld.isGoalVertex(i) != model[i].goal)
                c.failOrKnown(model[i].start && model[i].goal ? "C09/start-and-goal-vertex" : "C09/planner-data-goal-mark",
                              vf::fmt("vertex %u: goal mark %d after loading, stored %d (start mark %d)", i, (int)ld.isGoalVertex(i), (int)model[i].goal, (int)model[i].start));
        }
        if (!(ld.numStartVertices() == (unsigned)starts && ld.numGoalVertices() == (unsigned)goals))
            c.failOrKnown(both ? "C09/start-and-goal-vertex" : "C09/planner-data-mark-count",
                          vf::fmt("%u start / %u goal vertices after loading, stored %d / %d", ld.numStartVertices(), ld.numGoalVertices(), starts, goals));
        for (unsigned a = 0; a < model.size(); ++a)
            for (unsigned b = 0; b < model.size(); ++b)
            {
                auto it = edges.find({a, b});
                VCHECK(c, ld.edgeExists(a, b) == (it != edges.end()), "C09/planner-data-edge-set", "edge (%u,%u) %s after loading", a, b,
                       it != edges.end() ? "missing" : "invented");
                if (it == edges.end())
                    continue;
                ob::Cost w;
                VCHECK(c, ld.getEdgeWeight(a, b, &w), "C09/planner-data-weight", "edge (%u,%u) has no weight", a, b);
                VCHECK(c, w.value() == it->second.w, "C09/planner-data-weight", "edge (%u,%u): weight %.17g, stored %.17g", a, b, w.value(), it->second.w);
                if (control)
                {
                    auto *ec = dynamic_cast<const oc::PlannerDataEdgeControl *>(&ld.getEdge(a, b));
                    VCHECK(c, ec != nullptr, "C09/planner-data-control", "edge (%u,%u) lost its control", a, b);
                    VCHECK(c, ec->getDuration() == it->second.dur, "C09/planner-data-duration", "edge (%u,%u): duration %.17g, stored %.17g", a, b, ec->getDuration(),
                           it->second.dur);
                    for (unsigned k = 0; k < cdim; ++k)
                        VCHECK(c, ec->getControl()->as<oc::RealVectorControlSpace::ControlType>()->values[k] == it->second.ctrl[k], "C09/planner-data-control",
                               "edge (%u,%u): control component %u differs", a, b, k);
                }
            }
    };
    {
        auto ld = fresh();
        std::stringstream in(bytes, std::ios::in | std::ios::binary);
        g_cap.errors = 0;
        bool ok = storage.load(in, *ld);
        VCHECK(c, ok && g_cap.errors == 0, "C09/planner-data-load", "load() of an intact stream failed");
        compare(*ld);
    }
    // every truncation offset (thorough: all; the generated size keeps this affordable)
    bool insideGraph = false;
    for (size_t len = 0; len < bytes.size(); ++len)
    {
        auto ld = fresh();
        std::stringstream in(bytes.substr(0, len), std::ios::in | std::ios::binary);
        g_cap.errors = 0;
        bool ok = storage.load(in, *ld);
        VCHECK(c, !ok, "C09/planner-data-truncation-accepted", "stream truncated to %zu of %zu bytes: load() returned true (%u vertices, %u edges)", len, bytes.size(),
               ld->numVertices(), ld->numEdges());
        VCHECK(c, g_cap.errors > 0, "C09/planner-data-truncation-silent", "stream truncated to %zu of %zu bytes was rejected without an error report", len, bytes.size());
        if (ld->numVertices() > 0)
            insideGraph = true;
        c.count("fault:truncation-offsets(planner data)");
    }
    // a different space signature
    {
        Desc other = genSpace(s, o);
        try
        {
            other.space->setup();
            std::vector<int> s1, s2;
            sp->computeSignature(s1);
            other.space->computeSignature(s2);
            if (s1 != s2 && !control)
            {
                auto osi = std::make_shared<ob::SpaceInformation>(other.space);
                ob::PlannerData ld(osi);
                std::stringstream in(bytes, std::ios::in | std::ios::binary);
                g_cap.errors = 0;
                bool ok = storage.load(in, ld);
                VCHECK(c, !ok && g_cap.errors > 0 && ld.numVertices() == 0, "C09/planner-data-foreign-signature", "a graph stored for %s was accepted for %s",
                       d.name().c_str(), other.name().c_str());
                c.count("fault:foreign-signature(planner data)");
            }
        }
        catch (const ompl::Exception &)
        {
        }
    }
    // a stream of the other kind (wrong marker)
    {
        ob::StateStorage st(sp);
        std::stringstream wrong(std::ios::in | std::ios::out | std::ios::binary);
        st.store(wrong);
        auto ld = fresh();
        std::stringstream in(wrong.str(), std::ios::in | std::ios::binary);
        g_cap.errors = 0;
        bool ok = storage.load(in, *ld);
        VCHECK(c, !ok && g_cap.errors > 0, "C09/planner-data-wrong-marker", "a StateStorage stream was accepted as PlannerData");
        ob::StateStorage st2(sp);
        std::stringstream in2(bytes, std::ios::in | std::ios::binary);
        g_cap.errors = 0;
        st2.load(in2);
        VCHECK(c, st2.size() == 0 && g_cap.errors > 0, "C09/state-storage-wrong-marker", "a PlannerData stream was accepted as StateStorage (%zu states)", st2.size());
        c.count("fault:wrong-marker");
    }
    for (auto *ctl : controls)
        cspace->freeControl(ctl);
    c.count(control ? "planner-data:control" : "planner-data:geometric");
    c.nontrivial = (starts >= 2 || goals >= 2 || removed > 0) && insideGraph;
}

void vf::run_case(Src &s, Ctx &c)
{
    switch (s.weighted({5, 2, 2, 3}))
    {
        case 0:
            stateLaws(s, c);
            break;
        case 1:
            partialCopy(s, c);
            break;
        case 2:
            stateStorage(s, c);
            break;
        default:
            plannerData(s, c);
    }
}

#include "../core/runner.h"
