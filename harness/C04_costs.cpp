// C04 — reported solution costs are truthful, admissible-bounded and only improve; best solution first.
// Part A (fork per case): optimizing planner x objective x threshold x continued solves -> recomputed costs.
// Part B (same process, cheap): generated multisets of PlannerSolutions -> ordering model.
#include "../gen/planning.h"
#include "ompl/base/objectives/MaximizeMinClearanceObjective.h"
#include "ompl/base/objectives/MechanicalWorkOptimizationObjective.h"
#include "ompl/base/objectives/PathLengthOptimizationObjective.h"
#include "ompl/base/objectives/StateCostIntegralObjective.h"

namespace ob = ompl::base;
namespace og = ompl::geometric;
using namespace plan;

#define VF_HAS_PROCESS_INIT
void vf::process_init()
{
    ompl::msg::setLogLevel(ompl::msg::LOG_NONE);
}

vf::Config vf::config()
{
    Config c;
    c.property = "C04";
    c.maxLen = 400;
    c.batch = 1;
    c.caseTimeout = 30;
    c.hardTimeout = 150;
    return c;
}

namespace
{
    class FieldCost : public ob::StateCostIntegralObjective
    {
    public:
        const PlanSpace *ps;
        double a, fx, fy;
        FieldCost(const ob::SpaceInformationPtr &si, const PlanSpace *p, double a_, double fx_, double fy_)
          : ob::StateCostIntegralObjective(si, true), ps(p), a(a_), fx(fx_), fy(fy_)
        {
        }
        ob::Cost stateCost(const ob::State *s) const override
        {
            double x, y;
            ps->xy(s, x, y);
            return ob::Cost(1.0 + a * (1 + std::sin(fx * x) * std::cos(fy * y)));
        }
    };
    struct ObjSpec
    {
        int kind;  // 0 length, 1 field integral, 2 mechanical work, 3 max-min clearance, 4 weighted multi (length + field)
        double a, fx, fy, w1, w2;
    };
    ob::OptimizationObjectivePtr makeObjective(const ObjSpec &o, const Problem &P)
    {
        switch (o.kind)
        {
            case 0:
                return std::make_shared<ob::PathLengthOptimizationObjective>(P.si);
            case 1:
                return std::make_shared<FieldCost>(P.si, &P.ps, o.a, o.fx, o.fy);
            case 2:
            {
                // mechanical work over the same smooth field (state cost = potential)
                class Work : public ob::MechanicalWorkOptimizationObjective
                {
                public:
                    const PlanSpace *ps;
                    double a, fx, fy;
                    Work(const ob::SpaceInformationPtr &si, const PlanSpace *p, double a_, double fx_, double fy_)
                      : ob::MechanicalWorkOptimizationObjective(si), ps(p), a(a_), fx(fx_), fy(fy_)
                    {
                    }
                    ob::Cost stateCost(const ob::State *s) const override
                    {
                        double x, y;
                        ps->xy(s, x, y);
                        return ob::Cost(1.0 + a * (1 + std::sin(fx * x) * std::cos(fy * y)));
                    }
                };
                return std::make_shared<Work>(P.si, &P.ps, o.a, o.fx, o.fy);
            }
            case 3:
                return std::make_shared<ob::MaximizeMinClearanceObjective>(P.si);
            default:
            {
                auto m = std::make_shared<ob::MultiOptimizationObjective>(P.si);
                m->addObjective(std::make_shared<ob::PathLengthOptimizationObjective>(P.si), o.w1);
                m->addObjective(std::make_shared<FieldCost>(P.si, &P.ps, o.a, o.fx, o.fy), o.w2);
                return m;
            }
        }
    }
    const char *objName(int k)
    {
        static const char *n[] = {"path-length", "state-cost-integral", "mechanical-work", "max-min-clearance", "weighted-multi(length+integral)"};
        return n[k];
    }
}  // namespace

static void partB(vf::Src &s, vf::Ctx &c)
{
    // ordering model on generated solution multisets sharing one objective
    auto space = std::make_shared<ob::RealVectorStateSpace>(1);
    space->setBounds(0, 1);
    auto si = std::make_shared<ob::SpaceInformation>(space);
    auto pdef = std::make_shared<ob::ProblemDefinition>(si);
    bool withObjective = s.chance(200);
    bool maximize = withObjective && s.chance(64);
    ob::OptimizationObjectivePtr opt;
    if (withObjective)
    {
        if (maximize)
            opt = std::make_shared<ob::MaximizeMinClearanceObjective>(si);
        else
            opt = std::make_shared<ob::PathLengthOptimizationObjective>(si);
    }
    struct M
    {
        bool approx;
        double diff;
        bool optimized;
        double cost;
        double length;
        int order;
        const void *path;
    };
    std::vector<M> added;
    int classes[4] = {0, 0, 0, 0};
    int n = s.in(1, 9);
    c.note("solution multiset (%s): ", withObjective ? (maximize ? "maximizing objective" : "minimizing objective") : "no objective (length)");
    std::vector<ob::PlannerSolution> sols;
    for (int i = 0; i < n; ++i)
    {
        auto path = std::make_shared<og::PathGeometric>(si);
        ob::State *st = si->allocState();
        int npts = s.in(1, 3);
        static const double vals[] = {0, 0.25, 0.5, 1.0, 0.125};
        for (int k = 0; k < npts; ++k)
        {
            st->as<ob::RealVectorStateSpace::StateType>()->values[0] = vals[s.pick(5)];
            path->append(st);
        }
        si->freeState(st);
        ob::PlannerSolution sol(path);
        M m{};
        m.length = path->length();
        m.approx = s.chance(96);
        static const double dv[] = {0.1, 0.1, 0.5, 2.0, std::numeric_limits<double>::infinity(), 0.0};
        static const double cv[] = {1.0, 1.0, 2.5, 0.0, std::numeric_limits<double>::infinity(), 7.0};
        if (m.approx)
        {
            m.diff = dv[s.pick(6)];
            sol.setApproximate(m.diff);
        }
        if (withObjective)
        {
            m.cost = cv[s.pick(6)];
            m.optimized = s.flag() && !m.approx;
            sol.setOptimized(opt, ob::Cost(m.cost), m.optimized);
        }
        m.order = i;
        m.path = path.get();
        classes[m.approx ? 0 : m.optimized ? 1 : 2]++;
        added.push_back(m);
        sols.push_back(sol);
        pdef->addSolutionPath(sol);
        c.note("[%s%s diff=%g cost=%g len=%g] ", m.approx ? "approx" : "exact", m.optimized ? ",optimized" : "", m.diff, m.cost, m.length);
    }
    // operator< must be a strict weak order on what was generated (std::sort is UB otherwise)
    for (int i = 0; i < n; ++i)
    {
        VCHECK(c, !(sols[i] < sols[i]), "C04/order-irreflexive", "PlannerSolution::operator< is not irreflexive");
        for (int j = 0; j < n; ++j)
        {
            if (sols[i] < sols[j])
                VCHECK(c, !(sols[j] < sols[i]), "C04/order-asymmetric", "a < b and b < a for two generated solutions");
            for (int k = 0; k < n; ++k)
                if (sols[i] < sols[j] && sols[j] < sols[k])
                    VCHECK(c, sols[i] < sols[k], "C04/order-transitive", "a < b, b < c but not a < c");
        }
    }
    std::vector<ob::PlannerSolution> got = pdef->getSolutions();
    VCHECK(c, got.size() == added.size() && pdef->getSolutionCount() == added.size(), "C04/solutions-lost", "added %zu solutions, the problem definition holds %zu", added.size(),
           got.size());
    // permutation: every added path appears exactly once, index_ = insertion order
    std::set<const void *> seen;
    for (auto &g : got)
    {
        VCHECK(c, seen.insert(g.path_.get()).second, "C04/solutions-duplicated", "a solution appears twice in getSolutions()");
        bool found = false;
        for (auto &m : added)
            if (m.path == g.path_.get())
            {
                found = true;
                VCHECK(c, g.index_ == m.order, "C04/solution-index", "solution added as number %d carries index_ %d", m.order, g.index_);
            }
        VCHECK(c, found, "C04/solutions-invented", "getSolutions() contains a path that was never added");
    }
    // sorted by the stated rule (reference comparison written from the property text)
    auto before = [&](const ob::PlannerSolution &a, const ob::PlannerSolution &b)
    {
        if (a.approximate_ != b.approximate_)
            return !a.approximate_;
        if (a.approximate_)
            return a.difference_ < b.difference_;
        if (a.optimized_ != b.optimized_)
            return a.optimized_;
        if (withObjective)
            return maximize ? a.cost_.value() > b.cost_.value() : a.cost_.value() < b.cost_.value();
        return a.length_ < b.length_;
    };
    for (size_t i = 0; i + 1 < got.size(); ++i)
        VCHECK(c, !before(got[i + 1], got[i]), "C04/solutions-not-sorted", "getSolutions()[%zu] should come before [%zu] (exact before approximate, then objective-satisfying, then better cost; approximate by smaller difference)", i + 1, i);
    // accessors describe element 0
    VCHECK(c, pdef->getSolutionPath().get() == got[0].path_.get(), "C04/top-accessor", "getSolutionPath() is not the first element of getSolutions()");
    VCHECK(c, pdef->hasApproximateSolution() == got[0].approximate_, "C04/top-accessor", "hasApproximateSolution() does not describe the best solution");
    VCHECK(c, pdef->hasOptimizedSolution() == got[0].optimized_, "C04/top-accessor", "hasOptimizedSolution() does not describe the best solution");
    if (got[0].approximate_)
        VCHECK(c, pdef->getSolutionDifference() == got[0].difference_, "C04/top-accessor", "getSolutionDifference() does not describe the best solution");
    c.count("partB:ordering");
    int kinds = (classes[0] > 0) + (classes[1] > 0) + (classes[2] > 0);
    c.nontrivial = kinds >= 2 && n >= 3;
}

void vf::run_case(Src &s, Ctx &c)
{
    if (s.chance(120))
    {
        partB(s, c);
        return;
    }
    // ---- part A
    const auto &R = registry();
    std::vector<int> opti;
    for (size_t i = 0; i < R.size(); ++i)
        if (R[i].optimizing)
            opti.push_back((int)i);
    size_t pidx = (size_t)opti[s.pick(opti.size())];
    // exploration aid (never set by ./check): sweep one planner, e.g. VF_FORCE_PLANNER=AITstar ./check C04
    if (const char *fp = std::getenv("VF_FORCE_PLANNER"))
        if (findPlanner(fp) >= 0)
            pidx = (size_t)findPlanner(fp);
    const PlannerInfo &pi = R[pidx];
    c.context(pi.name);
    unsigned seed = 1 + (unsigned)s.u(0, 1000000);
    ompl::RNG::setSeed(seed);
    ProblemOpts o;
    o.allowAbnormal = false;
    o.onlySampleableGoal = true;
    o.singleStart = std::string(pi.name) == "LBTRRT" || std::string(pi.name) == "LazyLBTRRT";
    std::shared_ptr<Problem> P = genProblem(s, o);
    // Two fifths of the cases (decided by the already decoded seed; no saved case has such a seed) make the goal region large, 1.0 .. 2.8 in a
    // 10 x 10 box: planners that turn samples inside the region into goal vertices then hold several goals of different cost at once.
    if (seed % 5 >= 3)
    {
        P->threshold = 1.0 + 0.3 * (double)(seed % 7);
        P->pdef->getGoal()->as<ob::GoalRegion>()->setThreshold(P->threshold);
        c.count("goal:large-region");
    }
    ObjSpec os{};
    os.kind = (int)s.weighted({6, 3, 2, 2, 2});
    os.a = s.real(0.2, 3);
    os.fx = s.real(0.3, 2);
    os.fy = s.real(0.3, 2);
    os.w1 = s.real(0.2, 2);
    os.w2 = s.real(0.2, 2);
    ob::OptimizationObjectivePtr plannerObj = makeObjective(os, *P), mine = makeObjective(os, *P);
    size_t tk = s.weighted({3, 3, 3});
    double thrCost = 0;
    if (tk == 1)
        thrCost = std::numeric_limits<double>::infinity();
    else if (tk == 2)
        thrCost = os.kind == 3 ? s.real(0.05, 1.0) : s.real(5, 60);
    if (os.kind == 3 && tk == 0)
        thrCost = std::numeric_limits<double>::infinity();  // "never satisfied" for a maximized objective
    if (os.kind == 3 && tk == 1)
        thrCost = 0;
    plannerObj->setCostThreshold(ob::Cost(thrCost));
    mine->setCostThreshold(ob::Cost(thrCost));
    P->pdef->setOptimizationObjective(plannerObj);
    ob::PlannerPtr pl = pi.make(P->si);
    c.note("planner=%s seed=%u objective=%s threshold=%g\n%s", pi.name, seed, objName(os.kind), thrCost, P->str().c_str());
    c.count(std::string("planner:") + pi.name);
    c.count(std::string("objective:") + objName(os.kind));
    const std::string pkey = std::string("/") + pi.name;
    // A quarter of the cases (decided by the already decoded seed; no saved case has such a seed) run the planner with some of its declared
    // switches off their defaults (stop on each improvement, pruning, k-nearest, delayed collision checking, ...)
    if (seed % 4 == 2)
    {
        try
        {
            std::string flipped = flipSwitchesHashed(pl, seed);
            c.note("switches:%s\n", flipped.empty() ? " (none declared)" : flipped.c_str());
            c.count(flipped.empty() ? "params:defaults" : "params:switches-flipped");
        }
        catch (const ompl::Exception &e)
        {
            c.count("outcome:configuration-rejected");
            throw Skip{std::string("parameter value rejected: ") + e.what()};
        }
    }
    try
    {
        pl->setProblemDefinition(P->pdef);
        pl->setup();
    }
    catch (const ompl::Exception &e)
    {
        c.count("outcome:setup-rejected");
        throw Skip{std::string("setup rejected: ") + e.what()};
    }
    int solves = s.in(1, 4);
    bool notResumable = false;
    {
        // known findings excluded by construction (counted): continued solves of planners that are not resumable
        std::string n = pi.name;
        const char *key = n == "FMT" ? "san/asan-heap-use-after-free/FMT.h/getState /repo/src/ompl/geometric/planners/fmt/FMT.h:250:28" :
                          n == "BFMT" ? "hang/BFMT" : n == "LazyLBTRRT" ? "hang/LazyLBTRRT" : nullptr;
        if (key && solves > 1 && c.isKnown(key))
        {
            c.knownHits[key]++;
            solves = 1;
        }
        notResumable = key && c.isKnown(key);
    }
    bool haveBest = false;
    ob::Cost bestExact;
    size_t maxSolutions = 0;
    // one (continued) solve() and the judgement of everything the problem definition then holds; false = an exception ended the history
    auto oneSolve = [&](int k, long limit, bool dropFirst) -> bool
    {
        CountPTC ptc(&c);
        ptc.limit = limit;
        // a quarter of the continued solves are preceded by the caller dropping the stored paths (ProblemDefinition::clearSolutionPaths(), as the
        // repository's own optimisation tests do between rounds): what the planner reports afterwards must still not be worse than what it
        // reported before. Decided by the already decoded budget, so that saved cases keep their meaning.
        bool dropped = false;
        if (dropFirst || (k > 0 && ptc.limit % 4 == 1))
        {
            P->pdef->clearSolutionPaths();
            dropped = true;
            // Only a planner that keeps an incumbent across solve() calls (the mechanism the statement names: RRT* bestCost_, BIT*, AIT*, EIT*
            // updateExactSolution) can be held to "not worse than before" once the caller has emptied the solution list; a roadmap planner
            // answers each call with a path it finds then, and the list that would have kept the better one first is gone. (A first version
            // compared for every planner: at five times the quick case count LazyPRM* - two start states, mechanical work - reported its
            // second-best path after the list was dropped. That was the harness demanding more than the statement.)
            static const char *incumbent[] = {"RRTstar", "InformedRRTstar", "SORRTstar", "BITstar", "ABITstar", "AITstar", "EITstar", "EIRMstar"};
            bool keeps = false;
            for (auto *n : incumbent)
                if (std::string(pi.name) == n)
                    keeps = true;
            if (!keeps)
                haveBest = false;
            c.count("history:clearSolutionPaths-before-continued-solve");
            c.note("clearSolutionPaths\n");
        }
        ob::PlannerStatus st;
        try
        {
            st = pl->solve(ptc.make());
        }
        catch (const ompl::Exception &e)
        {
            c.note("solve %d: exception %s\n", k, e.what());
            c.count("outcome:exception");
            return false;
        }
        auto sols = P->pdef->getSolutions();
        c.note("solve %d (budget %ld): %s, %zu solutions\n", k, ptc.limit, statusName(st), sols.size());
        maxSolutions = std::max(maxSolutions, sols.size());
        for (size_t i = 0; i < sols.size(); ++i)
        {
            auto &sol = sols[i];
            auto *pg = dynamic_cast<og::PathGeometric *>(sol.path_.get());
            if (!pg || pg->getStateCount() == 0 || !sol.opt_)
                continue;
            ob::Cost truth = pg->cost(mine);
            double tol = 1e-6 * (1 + std::fabs(truth.value()));
            bool storedBetter = os.kind == 3 ? sol.cost_.value() > truth.value() + tol : sol.cost_.value() < truth.value() - tol;
            c.note("  #%zu %s stored=%.9g true=%.9g optimized=%d\n", i, sol.approximate_ ? "approx" : "exact", sol.cost_.value(), truth.value(), (int)sol.optimized_);
            if (storedBetter)
                c.failOrKnown("C04/stored-cost-better-than-true" + pkey + "(" + objName(os.kind) + (sol.approximate_ ? ",approximate" : ",exact") + ")", vf::fmt("%s (%s): stored cost %.9g is better than the path's true cost %.9g", pi.name, objName(os.kind),
                                                                                 sol.cost_.value(), truth.value()));
            if (!pi.deferredCost && !sol.approximate_ && std::isfinite(truth.value()))
            {
                c.stat("stored-vs-true-gap(rel)", std::fabs(sol.cost_.value() - truth.value()) / (1 + std::fabs(truth.value())));
                if (!(std::fabs(sol.cost_.value() - truth.value()) <= 1e-6 * (1 + std::fabs(truth.value()))))
                    c.failOrKnown("C04/stored-cost-not-true" + pkey, vf::fmt("%s (%s) does not defer cost propagation but stored cost %.9g != true cost %.9g", pi.name,
                                                                             objName(os.kind), sol.cost_.value(), truth.value()));
            }
            // admissible lower bound for path length: straight-line distance between some start and some goal, minus the goal threshold
            if (os.kind == 0 && !sol.approximate_)
            {
                double lb = 1e300;
                for (size_t a = 0; a < P->starts.size(); ++a)
                    for (size_t b = 0; b < P->goals.size(); ++b)
                        lb = std::min(lb, P->si->distance(P->starts[a], P->goals[b]));
                lb -= P->threshold;
                VCHECK(c, truth.value() >= lb - 1e-6 * (1 + lb), "C04/below-admissible-bound" + pkey, "%s: true path length %.9g is below the straight-line bound %.9g", pi.name,
                       truth.value(), lb);
            }
            bool sat = mine->isSatisfied(sol.cost_);
            if (!sol.approximate_)
            {
                if (sol.optimized_ != sat)
                    c.failOrKnown("C04/optimized-flag" + pkey, vf::fmt("%s (%s, threshold %g): exact solution with stored cost %.9g is marked optimized=%d but isSatisfied=%d", pi.name,
                                                                       objName(os.kind), thrCost, sol.cost_.value(), (int)sol.optimized_, (int)sat));
            }
            else if (sol.optimized_)
                VCHECK(c, sat, "C04/optimized-flag-approx" + pkey, "%s: approximate solution marked as meeting the objective although its cost %.9g does not", pi.name,
                       sol.cost_.value());
        }
        // ordering of what the planner itself produced
        for (size_t i = 0; i + 1 < sols.size(); ++i)
            VCHECK(c, !(sols[i + 1] < sols[i]), "C04/planner-solutions-not-sorted" + pkey, "%s: getSolutions()[%zu] orders before [%zu]", pi.name, i + 1, i);
        // best stored exact cost never gets worse across continued solves
        for (auto &sol : sols)
            if (!sol.approximate_ && sol.opt_)
            {
                // first exact entry = best exact
                if (haveBest && mine->isCostBetterThan(bestExact, sol.cost_) && std::fabs(bestExact.value() - sol.cost_.value()) > 1e-9 * (1 + std::fabs(sol.cost_.value())))
                    c.failOrKnown(std::string("C04/best-cost-worsened") + (dropped ? "(after-clearSolutionPaths)" : "") + pkey,
                                  vf::fmt("%s: best stored exact cost went from %.9g to %.9g on a continued solve%s", pi.name, bestExact.value(), sol.cost_.value(),
                                          dropped ? " that followed clearSolutionPaths()" : ""));
                bestExact = sol.cost_;
                haveBest = true;
                break;
            }
        return true;
    };
    int k = 0;
    for (; k < solves; ++k)
        if (!oneSolve(k, (long)(std::exp(s.real(std::log(50.0), std::log(3000.0))) * pi.budgetScale), false))
            break;
    // epilogue (decoded last, so that saved cases - which end before it - keep their meaning): a solve with a budget from the top of the range,
    // the caller drops the stored solutions, a short continued solve. A planner that keeps an incumbent must not come back with something
    // worse than it had reported (the repository's own optimisation tests clear the solution paths between rounds).
    if (k == solves && !notResumable && s.chance(140))
    {
        c.count("history:epilogue(long solve, clearSolutionPaths, short solve)");
        if (oneSolve(k, (long)(s.real(1500, 3000) * pi.budgetScale), false))
            oneSolve(k + 1, (long)(20 + s.in(0, 200)), true);
    }
    c.nontrivial = maxSolutions >= 2;
}

#include "../core/runner.h"
