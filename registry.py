# Per-property registration used by ./check: harness source, case counts per tier, non-triviality rule, assumptions.
CHECKS = {}
NOT_APPLICABLE = {}   # property id -> reason, for properties deliberately not claimed
HOOK_COMMITS = []     # commits in /repo that add OMPL_VERIF-guarded hooks

CHECKS["C11"] = dict(
    src="harness/C11_heap.cpp",
    cases=dict(quick=400000, thorough=6000000),
    fuzz=dict(runs=8000000, maxlen=400),
    rule="Case = generated history (<=60 ops, ends when the choice bytes run out) of insert / insert(vector) / remove(handle) / "
         "update(handle after key change) / pop / in-place key changes + rebuild / buildFrom / sort / clear / drain+reinsert on "
         "BinaryHeap<Item,Cmp>, keys 0..7 or 0..63 (duplicates frequent), Cmp in {less, greater, key mod 7}; oracle = id->key map "
         "model checked after every op (size, top is a minimum, handles, content multiset, popping yields a non-decreasing "
         "permutation). Non-trivial = history containing a remove() of an element that is neither root nor last in a heap of "
         ">=4 elements; distinct = distinct consumed choice-byte prefix.",
    technique="model-based property testing of operation histories (sorted-multiset model) + libFuzzer on the same target",
    level_text="Generated operation histories (hundreds of thousands per quick run, millions + coverage-guided fuzzing in thorough) are "
               "checked after every step against an independent id->key model; exploration, not proof: absence of a violating history is "
               "claimed only for the histories generated.",
    level_note="Trusted: the harness model (std::map) and the comparator being a strict weak order; BinaryHeap is header-only so the harness "
               "compiles it directly from /repo's working tree with ASan+UBSan.",
    assumptions=["pop()/top()->... only on a non-empty heap (callers' precondition)",
                 "handles of elements placed by buildFrom() are unknown to the caller and only reachable through top()"],
)

CHECKS["C12"] = dict(
    src="harness/C12_pdf.cpp",
    cases=dict(quick=400000, thorough=6000000),
    fuzz=dict(runs=8000000, maxlen=400),
    rule="Case = generated history (<=50 ops) of add / update / remove / clear / sample(r) on ompl::PDF<int>, optionally starting from the "
         "vector constructor; weights from {0, small ints, 0.1-style non-representables, 1e-3, uniform reals} and in 19% of cases also "
         "1e12 / 1e-12; r from {0, 1, uniform, a cumulative boundary +-1 ulp}. Oracle = exact (long double) prefix-sum model in the "
         "structure's own element order (swap-with-last rule), handle/weight/size after every op, returned reference must be a stored "
         "element. Non-trivial = a sample() taken after a remove() of a non-last element with >=3 elements left; distinct = distinct "
         "consumed choice-byte prefix.",
    technique="model-based property testing of operation histories (exact prefix-sum model) + libFuzzer on the same target",
    level_text="Generated edit/sample histories are compared after every step with an exact prefix-sum model; a returned reference "
               "outside the stored elements is detected by address comparison as well as by ASan/UBSan. Exploration-level.",
    level_note="Trusted: long-double model sums; interval membership is accepted within 1e-9 x (largest total weight held since the "
               "structure was last empty), the error scale of the structure's incremental double sums.",
    assumptions=["weights are non-negative and r in [0,1] (the structure throws otherwise; not generated)",
                 "sample() with total weight exactly 0 is not judged (no element has a non-empty interval)",
                 "interval tolerance 1e-9 * max total weight since last empty (incremental floating-point sums)"],
)
