# Per-property registration used by ./check: harness source, case counts per tier, non-triviality rule, assumptions.
CHECKS = {}
NOT_APPLICABLE = {}   # property id -> reason, for properties deliberately not claimed
HOOK_COMMITS = ["62a93b3f73d09044be464450508a5e195cd7960f"]  # commits in /repo that add OMPL_VERIF-guarded hooks (yield points, C19)

CHECKS["C11"] = dict(
    src="harness/C11_heap.cpp",
    cases=dict(quick=2000000, thorough=20000000),
    fuzz=dict(runs=8000000, maxlen=400),
    rule="Case = generated history (<=60 ops, ends when the choice bytes run out) of insert / insert(vector) / remove(handle) / "
         "update(handle after key change) / pop / in-place key changes + rebuild / buildFrom / sort / clear / drain+reinsert on "
         "BinaryHeap<Item,Cmp>, keys 0..7 or 0..63 (duplicates frequent), Cmp in {less, greater, key mod 7}; oracle = id->key map "
         "model checked after every op (size, top is a minimum, handles, content multiset, popping yields a non-decreasing "
         "permutation). Non-trivial = history containing a remove() of an element that is neither root nor last in a heap of "
         ">=4 elements; distinct = distinct consumed choice-byte prefix.",
    technique="model-based property testing of operation histories (sorted-multiset model) + libFuzzer on the same target",
    level_text="Generated operation histories (hundreds of thousands per quick run, millions + coverage-guided fuzzing in thorough) are "
               "checked after every step against an independent id->key model; exploration, not proof: absence of a violating history is "
               "claimed only for the histories generated.",
    level_note="Trusted: the harness model (std::map) and the comparator being a strict weak order; BinaryHeap is header-only so the harness "
               "compiles it directly from /repo's working tree with ASan+UBSan.",
    assumptions=["pop()/top()->... only on a non-empty heap (callers' precondition)",
                 "handles of elements placed by buildFrom() are unknown to the caller and only reachable through top()"],
)

CHECKS["C12"] = dict(
    src="harness/C12_pdf.cpp",
    cases=dict(quick=2000000, thorough=20000000),
    fuzz=dict(runs=8000000, maxlen=400),
    rule="Case = generated history (<=50 ops) of add / update / remove / clear / sample(r) on ompl::PDF<int>, optionally starting from the "
         "vector constructor; weights from {0, small ints, 0.1-style non-representables, 1e-3, uniform reals} and in 19% of cases also "
         "1e12 / 1e-12, every weight of a case times one power of two from 2^{0 (75%), -60, -500, 60, 400} (changes no rounding: same exact oracle at "
         "every magnitude); r from {0, 1, uniform, a cumulative boundary +-1 ulp}. Oracle = exact (long double) prefix-sum model in the "
         "structure's own element order (swap-with-last rule), handle/weight/size after every op, returned reference must be a stored "
         "element. Non-trivial = a sample() taken after a remove() of a non-last element with >=3 elements left; distinct = distinct "
         "consumed choice-byte prefix.",
    technique="model-based property testing of operation histories (exact prefix-sum model) + libFuzzer on the same target",
    level_text="Generated edit/sample histories are compared after every step with an exact prefix-sum model; a returned reference "
               "outside the stored elements is detected by address comparison as well as by ASan/UBSan. Exploration-level.",
    level_note="Trusted: long-double model sums; interval membership is accepted within 1e-9 x (largest total weight held since the "
               "structure was last empty), the error scale of the structure's incremental double sums.",
    assumptions=["weights are non-negative and r in [0,1] (the structure throws otherwise; not generated)",
                 "sample() with total weight exactly 0 is not judged (no element has a non-empty interval)",
                 "interval tolerance 1e-9 * max total weight since last empty (incremental floating-point sums)"],
)

CHECKS["C13"] = dict(
    src="harness/C13_grid.cpp",
    cases=dict(quick=400000, thorough=2500000),
    fuzz=dict(runs=4000000, maxlen=600),
    rule="Case = grid variant {Grid, GridN, GridB, GridB<less,greater>} x dimension 1..5 x optional bounds (low<up) x optional interior-"
         "neighbour limit x history (<=60 ops) of createCell+add (never a duplicate coordinate) / add a block of up to 6x6 cells / remove+destroyCell / "
         "update / updateAll after changing up to 5 keys or every key / clear / create+remove of a never-added cell; coordinates from a small box (neighbours common), around the bounds, and +-2^30. "
         "Oracle = coordinate->cell map: lookups of present cells and absent neighbours, neighbour sets (exactly the present cells at L1 "
         "distance 1, symmetric), GridN/GridB neighbour counts and border flags, GridB queue counts and tops (only when the queue is "
         "non-empty), components() vs flood fill. Non-trivial = (GridN/GridB) a removal flipped at least one neighbour from interior to "
         "border, (plain Grid) >=3 cells at the end; distinct = distinct consumed choice-byte prefix.",
    technique="model-based property testing of operation histories (coordinate-map model, flood-fill reference) + libFuzzer",
    level_text="Generated create/add/remove/update histories on all four grid variants are compared after every operation with a "
               "coordinate-map model; exploration-level.",
    level_note="Trusted: the std::map model and flood fill in the harness. Callers' protocol is respected (createCell immediately followed "
               "by add, no duplicate coordinates, top*() only on a non-empty queue).",
    assumptions=["createCell is always paired with add, and a coordinate is never added twice (Discretization.h / KPIECE callers)",
                 "topInternal()/topExternal() are only called when the respective count is > 0",
                 "bounds are generated with low < up in every dimension"],
)

CHECKS["C10"] = dict(
    src="harness/C10_nn.cpp",
    cases=dict(quick=800000, thorough=6000000),
    fuzz=dict(runs=6000000, maxlen=700),
    rule="Case = structure {GNAT, GNATNoThreadSafety, Linear, SqrtApprox} x GNAT parameters (degree 2..8, min/max degree, leaf size 1..8, "
         "removed-cache 1..16, rebalancing; 12% library defaults) x metric {L1, L2, Linf} x dimension 1..3 x point distribution {4-lattice "
         "(duplicates, exact ties), 16-lattice, tight clusters 1000 apart, uniform} x history (<=70 ops) of add / add(vector<=24) / "
         "remove(member) / remove(never added) / clear / nearest / nearestK(k in {0,1,2..12,size,size+3}) / nearestR(r in {0, exact tie "
         "distance, 1e9, uniform}) / list. Elements are (id, point) with == on id. Oracle = brute force over the model vector: size, list "
         "multiset, remove return value, every returned element currently live and returned once, non-decreasing order, distance vector "
         "equal to the brute-force one bit for bit (exact structures; SqrtApprox: nearest is live, K/R exact). Non-trivial = a query "
         "issued after a remove while more than leaf-size elements are live (the tree has split); distinct = consumed byte prefix.",
    technique="model-based property testing of operation histories against brute-force search + libFuzzer on the same target",
    level_text="Generated histories over all four structures and the whole GNAT parameter space are compared with exhaustive search after "
               "every operation; exploration-level.",
    level_note="Trusted: the brute-force model and the three harness metrics (exact on lattice points). GNAT's pivot RNG is re-seeded per "
               "case so a case is a pure function of its bytes.",
    assumptions=["the distance function is a metric on points (L1/L2/Linf); distinct elements may share a point",
                 "nearest() on an empty structure throws ompl::Exception (documented)",
                 "bit-exact comparison where the metric is computed without rounding (L1/Linf on lattice points); for L2 and non-lattice "
                 "points elements tying with the radius / k-th distance within 1e-12 relative may be kept or pruned (the computed function "
                 "is a metric only up to rounding; confirmed by a strict-mode probe: 1 boundary-tie miss in 20000 cases)"],
)

CHECKS["C18"] = dict(
    src="harness/C18_ptc.cpp",
    cases=dict(quick=1500000, thorough=15000000),
    fuzz=dict(runs=3000000, maxlen=300),
    rule="Case = one of: (52%) combinator tree (1..5 leaves from {predicate with generated bit trace, always, never, iteration(n)}, joined by "
         "or/and in generated shape) driven by <=30 steps of eval(root via eval() or operator()) / eval(any node) / terminate(any node), "
         "compared with a reference interpreter on value AND per-predicate invocation counts (short-circuit, sticky terminate, shared state "
         "of copies); (13%) iteration(n) through eval() or the converted condition, with reset(), n <= 40 and (a quarter of these cases) n from {UINT_MAX, UINT_MAX-1, "
         "2^31, 2^31-1, 65536, 65535, 1000} evaluated up to 200 times; (22%) cost-convergence: window 1..8, "
         "eps log-uniform 1e-3..1 or default, generated cost sequences fed through the pdef's intermediate-solution callback, fired index "
         "compared with the harness's re-implementation of the documented moving-average rule (rounding-borderline cases unjudged, counted); "
         "(13%) exact-solution condition under add-exact / add-approximate / clear sequences; (<1%, they cost real time) timed and periodic "
         "forms with a load-immune bracketing oracle. Non-trivial = tree depth >=2 or terminate() strictly inside the trace; iteration "
         "evaluated past n>0; convergence index > window; pdef holding both exact and approximate solutions; every timed case.",
    technique="property-based testing against a reference interpreter (value + invocation counts) and bracketing oracle for timed forms; "
              "libFuzzer on the same target in thorough",
    level_text="Generated condition trees, traces, cost sequences and terminate() interleavings (single thread; cross-thread terminate is "
               "C19) are compared with a reference interpreter; timed forms are judged only by inequalities that hold under any scheduling "
               "delay. Exploration-level.",
    level_note="Trusted: the reference interpreter and the harness's reading of the documented convergence rule; timed clauses use the "
               "same system clock as ompl::time and allow 2 us for its microsecond truncation; a periodic condition later than "
               "3 periods + 2 s is called a violation only after 3 reproductions in fresh processes.",
    assumptions=["solution costs fed to the convergence condition are > 0",
                 "cost-convergence verdicts within 1e-12 relative of the (1 +- eps) thresholds are not judged"],
)

CHECKS["C06"] = dict(
    src="harness/C06_metric.cpp",
    cases=dict(quick=1000000, thorough=12000000),
    fuzz=dict(runs=4000000, maxlen=600),
    rule="(filled below)",
    technique="property-based testing of metric laws over generated spaces and adversarial state triples; libFuzzer in thorough",
    level_text="Generated spaces (every shipped kind, wrappers, nested weighted compounds to depth 3) and jointly generated adversarial "
               "triples are checked against the metric laws the space itself claims (hasSymmetricDistance, isMetricSpace) with the "
               "tolerance policy of DESIGN.md section 3. Exploration-level.",
    level_note="Trusted: the harness's typed traversal of state coordinates (separation test independent of the library's distance and "
               "equality) and the stated numerical slacks (SO(3) grain 4.5e-5, Sphere float haversine, Dubins 1e-5 relative).",
    assumptions=["states are constructed in bounds from the choice bytes (no library sampler involved)",
                 "positivity is asserted only for pairs separated by >10x the leaf's numerical resolution and with positive effective weight",
                 "compound-sum law applies to CompoundStateSpace::distance users (generic compounds, SE2, SE3), not to spaces overriding distance"],
)
CHECKS["C06"]["rule"] = (
    "Case = generated space {R^n n<=8 with bounds classes unit/shifted/negative/huge/tiny/zero-width-dim, SO2, SO3, SE2, SE3, Time, Discrete, "
    "Torus, Sphere(radius), Mobius, KleinBottle, Dubins(+symmetric), ReedsShepp, Wrapper(any), nested weighted Compound (<=4 components, "
    "weights {1, 7.5, 1e-3, 0}, depth<=3)} x triple (a; b related to a; c related to a or b) with relation classes {independent, identical, "
    "1-ulp adjacent, nearly coincident 1e-12..1e-4, antipodal / seam-crossing (-q, 180 deg, angles on both sides of +-pi), one leaf differs}. "
    "Oracle: finite, >=0, d(s,s)=0, positivity for separated unequal states and - in spaces built only from R^n, SO2 (off the +-pi seam), SO3, time, "
    "discrete and positively weighted compounds - bit-exactly: distance == 0 only for states the space's own equalStates() accepts, <= getMaximumExtent(), symmetry if claimed, triangle if "
    "isMetricSpace(), weighted-sum law at every compound node. Non-trivial = at least one of the two relations is not 'independent'; "
    "distinct = consumed byte prefix.")

CHECKS["C07"] = dict(
    src="harness/C07_interp.cpp",
    cases=dict(quick=600000, thorough=8000000),
    fuzz=dict(runs=4000000, maxlen=600),
    rule="Case = generated space (as C06) x in-bounds pair (from; to related by {independent, identical, 1-ulp adjacent, nearly coincident, "
         "antipodal / seam-crossing, one leaf differs}) x 1..4 values of t and (s,u) from {uniform, 0, 1, 0.5, 1e-12..1e-3, 1-(1e-12..1e-3)}. "
         "Oracle: interpolate(0)=from and interpolate(1)=to leaf-wise within tolerance; every output finite and inside the bounds decided on raw "
         "coordinates (<=4 ulp past a bound); output aliasing from / to gives the bit-identical serialized state; re-parameterisation "
         "interp(interp(a,b,s),b,u) == interp(a,b,s+(1-s)u) leaf-wise (discrete +-1); for geodesic spaces d(from,interp(t)) = t*d(from,to). "
         "Non-trivial = the pair is in an adversarial relation class or the space is a compound of nesting depth >=2; distinct = consumed bytes.",
    technique="property-based testing of interpolation laws over generated spaces and adversarial pairs; libFuzzer in thorough",
    level_text="Generated spaces and adversarial pairs are checked against the five interpolation laws of the property with the tolerance "
               "policy of DESIGN.md section 3. Exploration-level.",
    level_note="Trusted: harness traversal of raw coordinates; tolerances: 1e-9 relative (R^n, time, angles), SO(3) grain 1e-4 rad, "
               "Dubins/Reeds-Shepp 1e-5*(1+length); glued surfaces (Mobius, Klein) may agree through their own distance at the glue line.",
    assumptions=["both endpoints are in bounds (constructed, then confirmed with satisfiesBounds)",
                 "geodesic proportionality only for R^n, SO2, SO3, SE2, SE3, Time, Torus and compounds/wrappers of them (as stated)"],
)

CHECKS["C08"] = dict(
    src="harness/C08_bounds.cpp",
    cases=dict(quick=300000, thorough=5000000),
    fuzz=dict(runs=3000000, maxlen=600),
    rule="Case = generated space (as C06, plus unbounded time) x one of: (36%) enforceBounds on an in-bounds state or a finite far-out state "
         "(coordinates up to 100 extents or +-1e300 outside, angles up to 50 periods away, exactly +pi, 1 ulp below -pi, up to 1e9; quaternions "
         "scaled 1e-6..1e6 or zero; discrete +-50) -> in-bounds input unchanged, output satisfiesBounds and finite, second application a no-op; "
         "(36%) default / subspace / wrapper state sampler: uniform, near and Gaussian around an in-bounds centre with distance or sigma in "
         "{0, 1e-12..1e-6, moderate, extent, 50..200 x extent} -> finite, satisfiesBounds, untouched components bit-identical; (28%) valid-state "
         "sampler {uniform, gaussian, obstacle-based, bridge-test, max-clearance, min-clearance} x predicate {all valid, stripes, half space, "
         "small island} on the first real coordinate x (clearance samplers) what clearance() reports {signed distance, unsigned distance, validity has an "
         "extra constraint unknown to it, not overridden} x attempts 1..40 x sample / sampleNear -> success implies satisfiesBounds and predicate "
         "(and clearance >= configured). Non-trivial = far-out input that was out of bounds / a distance in an extreme class / a successful "
         "valid sample under a predicate rejecting >= 50%. Distinct = consumed byte prefix.",
    technique="property-based testing of enforceBounds and samplers over generated spaces with extreme parameters; libFuzzer in thorough",
    level_text="Generated spaces, far-out states, extreme sampler parameters and predicates are checked with the library's own "
               "satisfiesBounds plus the harness's predicate copy; exploration-level.",
    level_note="Trusted: harness predicate/clearance functions; OMPL's RNG seed generator is re-seeded per case so a case is a pure "
               "function of its bytes. Centres for near/Gaussian sampling are in bounds (callers' precondition).",
    assumptions=["near / Gaussian sampling is always called with an in-bounds centre",
                 "a valid-state sampler returning false is always acceptable"],
)

CHECKS["C05"] = dict(
    src="harness/C05_motion.cpp",
    cases=dict(quick=150000, thorough=3000000),
    fuzz=dict(runs=2000000, maxlen=500),
    rule="Case = generated space (as C06; Dubins / Reeds-Shepp spaces get their own motion validator in 75% of cases) x "
         "longest_valid_segment_fraction (0.01 or log-uniform 0.002..0.2) x count factor 1..3 x in-bounds pair (relation classes as C06) x "
         "index-targeted predicate realised by a recording checker: a generated set of invalid subdivision indices (none / one / 2..5 / only "
         "the end state), so the first invalid index is spread over 1..n. Reference = harness loop valid(s2) and all k/n points valid. Oracle: both overloads return the reference verdict; the bisection "
         "overload only queries unvisited k/n points and all of them on success; on failure the fraction is exactly (j-1)/n in [0,1) and the "
         "returned state is bit-identical to interpolate(s1,s2,fraction), also when the output aliases s2 or s1; on success the caller's pair is "
         "untouched; each call advances exactly the right counter by one; the state-list helper agrees with 'all listed states valid / first "
         "invalid index' for count 0..40. Non-trivial = n >= 3 and an invalid point strictly inside; distinct = consumed byte prefix.",
    technique="property-based testing against a reference subdivision loop with a recording, index-targeted validity checker; libFuzzer in thorough",
    level_text="Generated spaces, resolutions, pairs and index-targeted predicates are decided by the harness's own subdivision loop and "
               "compared with both overloads of all three validators; exploration-level.",
    level_note="Trusted: the harness reference loop (uses the space's interpolate and validSegmentCount, which C07 and the space tests "
               "cover separately) and bit-exact state images from the space's own serialization.",
    assumptions=["s1 is valid and both states are in bounds (documented precondition of checkMotion)"],
)

CHECKS["C09"] = dict(
    src="harness/C09_storage.cpp",
    cases=dict(quick=40000, thorough=600000),
    fuzz=dict(runs=300000, maxlen=900),
    rule="Case = one of: (42%) state laws on a generated space (as C06 + unbounded time): copyState, cloneState, ScopedState copy/assign/==, "
         "serialize->deserialize, copyToReals->copyFromReals must give equalStates and a bit-identical serialized image (compounds whose leaf count is 2 mod 3 "
         "get a real-vector component grown by one dimension *after* composition - top-down assembly - before setup); (17%) copyStateData between two "
         "compounds built from a shared pool of 2..6 named subspaces (random subsets, optional inner compound): exactly the common subspaces are "
         "transferred, the rest is bit-identical to before, return code NO/SOME/ALL matches; (17%) StateStorage: 0..12 states, round trip, EVERY "
         "truncation offset 0..len-1 (must be reported, may keep only a correct prefix), foreign space signature, occasionally a user-style subspace of "
         "zero serialization length; (25%) PlannerDataStorage, geometric or with controls: 0..14 vertices with tags, duplicate state values, multiple "
         "starts / goals, a vertex that is both, removed vertices, <=20 edges with weights from {1, 0, uniform, 1e-300, 1e300, inf}, controls and "
         "durations -> loaded graph equal under the index map; EVERY truncation offset must make load() return false with an error logged; a foreign "
         "signature and a stream with the other marker are rejected. Non-trivial = nested depth >=2 or wrapper / some-but-not-all common subspaces / "
         "a truncation that falls inside the states or the vertex-edge section of a graph with >=2 starts or goals or a removed vertex.",
    technique="property-based round-trip testing + exhaustive fault enumeration of truncation offsets per generated stream; libFuzzer in thorough",
    level_text="Round trips are compared bit for bit on serialized images and graph structure; stream faults are enumerated completely per "
               "generated stream (every truncation offset) on top of generated graphs and spaces. Exploration over spaces/graphs, exhaustive over "
               "truncation offsets of each explored stream.",
    level_note="Trusted: the harness's vertex/edge model (checked against the source graph before storing). Leak detection is off: leaks on the "
               "library's error paths are an observation, not part of the property.",
    assumptions=["'reported' = load() returns false (PlannerData) or an error/warning is logged (StateStorage)",
                 "reals round trip applies to the values a space exposes; spaces exposing none (Discrete) are counted as vacuous"],
)

CHECKS["C01"] = dict(
    src="harness/C01_paths.cpp",
    also=["C01B", "C01P"],
    cases=dict(quick=3000, thorough=50000),
    rule="(filled below)",
    technique="property-based testing: generated planning problems per planner, independent path re-validation oracle, one forked process per case",
    level_text="Every shipped geometric / multilevel planner that can be instantiated generically (47 registry entries; companion C01B adds VFRRT, "
               "TSRRT, ST-RRT* and 2-/3-level multilevel sequences through bespoke fixtures) is run on generated "
               "problems; the reported status, flags and path are judged by an oracle that shares no bookkeeping with the planner (own predicate "
               "copy, own motion-check loop). Exploration-level: a few thousand (quick) to tens of thousands (thorough) solves.",
    level_note="Trusted: harness geometry (ball / box obstacles over the x,y coordinates), the space's interpolate / distance (covered by "
               "C06/C07), the per-planner 'strict recheck' flag fixed by reading each planner's path assembly. Termination is a call-counting "
               "condition, never wall-clock.",
    assumptions=["Dubins / Reeds-Shepp problems use validity = satisfiesBounds && obstacles (the repository's own car demo convention)",
                 "an ompl::Exception from setup()/solve() with no path added is a clean rejection of an unsupported configuration",
                 "planners needing bespoke fixtures: STRRTstar, TSRRT, VFRRT and real multi-level bundle sequences run in the companion C01B; "
                 "XXL, Lightning/Thunder and the control LTL planner are not exercised",
                 "C01B / ST-RRT*: the motion rule is the user's (forward in time, speed limit, points at spacing <= 0.05 valid), since a space-time "
                 "space has an infinite extent and therefore no resolution of its own; the oracle applies the same rule with its own code"],
)
CHECKS["C01"]["rule"] = (
    "Case = planner (uniform over 47 registry entries incl. RRT/RRTConnect with intermediate states, 1-level multilevel planners, 2-thread pRRT/pSBL/"
    "CForest, AnytimePathShortening) x space {R^2..R^6, SE2, SE3, weighted R2xSO2xR1, Dubins / Reeds-Shepp for the direction-aware planners: single-tree growth from the start, RRTConnect, BiTRRT} x "
    "0..6 ball/box obstacles x scenario {normal 69%; every start invalid; every goal invalid; invalid-first among several starts and goals; "
    "non-sampleable goal region; start inside goal; start out of bounds} x goal {GoalState, GoalStates} x threshold {0.1, 1e-3, epsilon (library default), 0.5, 2.5} x "
    "resolution x range x goal bias x (35%) further planner parameters from the planner's declared ParamSet (switches flipped, numeric values within a "
    "factor of two of the default; a setter answering with an error message = clean rejection) x seed x evaluation budget (0 or log-uniform "
    "1..4000, scaled per planner). Oracle: status <-> pdef coherence "
    "(truthful INVALID_START / INVALID_GOAL / UNRECOGNIZED_GOAL_TYPE, approximate flag and difference vs the last state), first state is a valid "
    "start, all states in bounds (raw coordinates), dense validity (invalid runs <= 2r at r/20 sampling), strict re-check of every consecutive pair "
    "with the harness's own k/n loop for tree/roadmap planners. Non-trivial = a solution whose straight start-goal motion is invalid, or an "
    "abnormal scenario; distinct = consumed byte prefix. "
    "Companion C01B (bespoke fixtures, 1000 / 16000 cases): (31%) QRRT / QRRTStar / QMP / QMPStar on real bundle sequences R2<SE2, R3<SE3, "
    "R2<R^n, R2<R^m<R^n, relaxation R2<R2 (a lower level sees all or a subset of the obstacles); (12%) VFRRT on R^n with a generated vector field "
    "(drift, sink, rotation, none) and exploration / lambda / update-frequency settings; (12%) TSRRT on R^n with the (x,y) task space and a lift that "
    "may fail; (25%) ST-RRT* on R^2 x time with a speed limit, static obstacles and a moving ball, bounded or unbounded time, generated rewiring / batch / "
    "time-bound-factor settings; each under a history solve [-> continued solve | clear + solve]* with the same oracle (for ST-RRT*: every consecutive "
    "pair passes the user's motion rule again, time within bounds, start at t = 0); (12%) LightningRetrieveRepair on a generated experience database "
    "(1..4 paths recorded 'in another environment'); (6%) XXL with a grid decomposition of the position. "
    "Companion C01P (configuration coverage, 1000 / 20000 cases; the C01 harness built with -DVF_C01P): planners drawn in proportion to what they let the caller configure (1 + 3 per declared switch + 1 per numeric parameter), every case sets planner parameters (each "
    "declared switch / numeric parameter with probability 1/2), a third of the normal single-goal problems have the goal walled in (valid but unreachable), "
    "59% of the budgets come from the top of the range: non-default configurations under long searches that end without an exact solution.")

CHECKS["C03"] = dict(
    src="harness/C03_history.cpp",
    also=["C03C"],
    cases=dict(quick=3000, thorough=40000),
    rule="(filled below)",
    technique="property-based testing of call histories with an evaluation-indexed termination condition; fork per case with LeakSanitizer at exit",
    level_text="For every registry planner, generated histories of solve / clear / clearQuery / new problem definition / getPlannerData are run with "
               "the termination condition first firing at a generated evaluation index k (0,1,2,... and log-uniform up to 2500); after every step the "
               "status, the stored solutions (C01 path oracle), resume monotonicity and absence of stale query states are judged; ASan watches for "
               "use-after-free / double free and LeakSanitizer reports every leaked state when the child exits. Exploration-level.",
    level_note="Trusted: as C01. A bare setProblemDefinition without clear()/clearQuery() is documented as unsupported (Planner.h) and is not "
               "generated. The bound on evaluations after the condition fired (500; 5000 for threaded planners) was calibrated x10 on the unchanged "
               "tree; a child that stops evaluating for 30 s is a hang, one that is still evaluating after 150 s is inconclusive.",
    assumptions=["switching to a new problem definition is always followed by clear() or clearQuery() (documented protocol)",
                 "after clearQuery() a roadmap planner may keep states of the old query as ordinary vertices, never as path endpoints",
                 "resumed-solve status may be APPROXIMATE/TIMEOUT while the pdef still ranks an older exact solution first"],
)
CHECKS["C03"]["rule"] = (
    "Case = planner (47 registry entries) x space {R^2, R^3, SE2} x 0..3 obstacles x two queries in opposite corners (>= 10 r apart) x GoalState / "
    "GoalStates x threshold x seed x history of 1..7 steps from {solve(k) with k in 0..3 / 0..40 / log-uniform 1..2500 (scaled per planner), clear(), "
    "clearQuery(), setProblemDefinition(other query) followed by clear() or clearQuery(), getPlannerData(), pdef->clearSolutionPaths()}; a quarter of the "
    "resumed solves are preceded by pdef->clearSolutionPaths(); 37% of the histories end with an epilogue: a solve with a budget from the top of the range "
    "(usually up to a solution) and a short continued solve; FMT / BFMT draw batches of 60..300 samples so that they get past sampling. Oracle after "
    "every solve: returned within the per-planner bound of further evaluations, status <-> pdef coherence (full on a first solve, weaker on a resume), "
    "truthful INVALID_* statuses, no empty / 1-state / half-built solution, C01 path oracle, no start/goal state of the other query in the path (or in "
    "the planner data right after clear()), resumed solves never lose an exact solution nor worsen the best one; ASan + LeakSanitizer at child exit. "
    "Non-trivial = a solve interrupted after >= 1 evaluation and before an exact solution, followed by a resume, a clear or a query switch. "
    "Companion C03C (the C02 harness, 8 control planners): solve(k) [-> solve again | clear + solve]* [=> solve with the whole budget -> short continued "
    "solve] with the C02 replay oracle after every solve and LeakSanitizer at child exit.")

CHECKS["C04"] = dict(
    src="harness/C04_costs.cpp",
    cases=dict(quick=1200, thorough=40000),
    rule="Case = (53%) part A: optimizing planner (22 registry entries) x problem (normal scenarios of C01; two fifths with a large goal region, threshold 1.0..2.8; a quarter with some declared planner switches flipped) x objective {path length, state-cost "
         "integral over a generated smooth field, mechanical work, max-min clearance, weighted length+integral} x cost threshold {never satisfied, "
         "always satisfied, generated finite} x 1..4 continued solves with evaluation budgets 50..3000 (a quarter of the continued solves preceded by pdef->clearSolutionPaths(); 55% of the cases "
         "end with: long solve, clearSolutionPaths, short solve - what the planner reports afterwards must not be worse than before): every entry of getSolutions() is re-costed "
         "with the harness's own objective instance (stored cost never better than true, equal for planners without deferred propagation, path length "
         ">= straight-line bound, optimized flag <=> isSatisfied(stored cost) for exact solutions, best exact cost never worsens, list sorted); "
         "(47%) part B: multiset of 1..9 PlannerSolutions with generated (approximate, difference, optimized, cost incl. ties and infinity) under one "
         "objective (minimizing, maximizing or none): operator< is a strict weak order on it, getSolutions() is a permutation with index_ = insertion "
         "order, sorted by the stated rule, top-element accessors describe element 0. Non-trivial = A: >=2 solutions recorded for the query; "
         "B: >=3 solutions mixing >=2 of the classes approximate / optimized / plain exact. Distinct = consumed byte prefix.",
    technique="property-based testing: cost re-computation oracle on generated optimal-planning runs + model test of solution ordering",
    level_text="Stored costs, flags and ordering are recomputed independently for generated runs of every optimizing planner and for generated "
               "solution multisets; exploration-level.",
    level_note="Trusted: the harness's second objective instance (same class, own construction), 1e-6 relative tolerance on cost comparisons. "
               "All solutions of one problem definition share one objective (what planners produce).",
    assumptions=["planners flagged 'deferred cost propagation' (RRT#, RRTX, LBTRRT, LazyLBTRRT, CForest, AnytimePathShortening) are held to the "
                 "inequality only"],
)

CHECKS["C17"] = dict(
    src="harness/C17_simplify.cpp",
    cases=dict(quick=150000, thorough=3000000),
    rule="Case = environment and space (normal scenarios of C01: R^n, SE2, SE3, weighted compound; 0..6 obstacles) x valid input path built by "
         "the harness {random valid polyline 1..13 states; detour hugging a ball or box obstacle at margin 0.05..0.4 (45%); tiny 1-2 state path; "
         "polyline with repeated states / 1e-9 segments; (a sixth of the cases) serpentine corridor: 3..7 thin walls reaching alternately from the bottom and the top, "
         "the path walks through the gaps close to the wall tips with up to 8 vertices per leg}, optionally ending at the goal x objective {length, state-cost integral, max-min clearance} "
         "x routine {reduceVertices, partialShortcutPath, ropeShortcutPath, collapseCloseVertices, smoothBSpline, perturbPath, findBetterGoal, "
         "simplify (counting termination condition), simplifyMax, interpolate(), interpolate(count 0..60), subdivide, PathHybridization} x generated "
         "parameters. Every input segment passes the harness's own motion check at the space resolution and at r/4. Oracle: first state bit-identical; "
         "last state bit-identical or (goal-aware routines) another goal state; output obeys the dense <= 2r validity oracle; shortcutting routines "
         "never lengthen the path in a metric space, cost-aware routines never worsen their objective; simplify==true implies path.check() - also for "
         "16 consecutive firing indices of the termination condition swept on copies of the same input (an interruption between a modification and the re-check); "
         "densification keeps all original vertices in order, the exact requested count, and the length; a hybridized path is not worse than the best "
         "recorded input. Non-trivial = the routine changed the path, or the input had repeated states. Distinct = consumed byte prefix.",
    technique="property-based testing of path post-processing with harness-built valid inputs (detour-heavy) and an independent validity / cost oracle",
    level_text="All simplification / densification routines are driven with generated valid paths and parameters; endpoints, introduced "
               "motions, length / cost monotonicity and exact counts are judged independently. Exploration-level.",
    level_note="Trusted: harness geometry and cost re-computation; OMPL's RNG seed generator is re-seeded per case.",
    assumptions=["input paths are valid at the space's resolution and at r/4 (harness-checked)",
                 "no clause ties the boolean result of the individual routines to 'path changed' (the statement does not)"],
)

CHECKS["C20"] = dict(
    src="harness/C20_determinism.cpp",
    cases=dict(quick=2500, thorough=40000),
    rule="Case = (80%) single-threaded planner (39 registry entries: every planner whose solve() spawns no thread, decided by reading the code - "
         "PRM, PRMstar, SPARS, SPARStwo, pRRT, pSBL, CForest, AnytimePathShortening are excluded) x problem (normal scenarios of C01, incl. Dubins / "
         "Reeds-Shepp for directed planners) x seed x evaluation budget 20..3000; the same bytes are executed in 3 separate child processes, each "
         "calling RNG::setSeed(seed) before any generator exists and differing only in a heap perturbation (0 / 7 / 100 small blocks kept allocated "
         "before the first OMPL call); digest = status, raw bytes of every state of every solution path, planner-data vertex count, number of "
         "termination-condition evaluations; all three digests must be identical. (20%) RNG level: 1..6 generators created after setSeed(), 16 draws "
         "of uniform / normal / integer / real plus a quaternion and the local seed of each -> identical digests in the 3 processes; a generator "
         "reseeded with setLocalSeed(x) after 0..7 draws (half-consumed normal cache) reproduces RNG(x) on 32 uniform / normal / integer draws and a "
         "quaternion. Non-trivial = the run returned a solution with >= 3 states (RNG cases always). Distinct = case bytes.",
    technique="property-based differential testing across separately perturbed processes (digest equality)",
    level_text="Generated single-threaded planning runs are repeated in three child processes whose heap layout differs; any dependence on "
               "addresses, allocation order, uninitialised memory or process state shows up as a digest mismatch. Exploration-level.",
    level_note="Trusted: the digest (FNV-1a over raw serialized states). Children are forked from a supervisor that never touches OMPL, so "
               "setSeed() precedes every generator; ASLR is not varied by fork, the heap perturbation is what exposes pointer-dependent behaviour "
               "(DESIGN section 5.1).",
    assumptions=["termination depends only on the number of evaluations (call-counting condition)",
                 "planners whose solve() spawns threads are out of scope of this property"],
)

CHECKS["C02"] = dict(
    src="harness/C02_control.cpp",
    cases=dict(quick=3000, thorough=50000),
    rule="Case = control planner {RRT, RRT with intermediate states, SST, EST, KPIECE1, PDST, SyclopRRT, SyclopEST (grid decomposition 2..8)} x system "
         "{first-order point, unicycle on SE2 with heading wrapped in the propagator, second-order point with bounded velocities, 1-control field "
         "follower} x control bounds (asymmetric in a third of the cases) x step size 0.02..0.2 x min/max duration 1..4 / +0..16 x 0..4 obstacles x "
         "start/goal x threshold x seed x evaluation budget 50..6000 x directed control sampler with k = 1 (library default, 57%) or k = 2..12 candidate "
         "controls. Oracle: the harness replays every recorded control for its recorded duration "
         "from the recorded state with its OWN copy of the dynamics: duration is a whole number (>=1, <= max) of steps, control inside the bounds, "
         "every propagation step valid (bounds + obstacles), result within float epsilon of the next recorded state; first state is the valid start; "
         "exact => last state satisfies the goal, approximate => flag and difference cohere; PathControl::check() agrees. Non-trivial = solution with "
         ">= 2 controls and (a duration > 1 step or obstacles present). Distinct = consumed byte prefix.",
    technique="property-based testing with a harness-side replay oracle (own propagator copy), fork per case",
    level_text="Generated control systems and problems for all eight control planners; every reported path is replayed independently. "
               "Exploration-level.",
    level_note="Trusted: the harness dynamics (the planner's StatePropagator object is a separate instance built from the same formulas), "
               "float epsilon as replay tolerance (the constant PathControl::check uses).",
    assumptions=["validity = inside the state-space bounds and outside the obstacles"],
)

CHECKS["C14"] = dict(
    src="harness/C14_curves.cpp",
    cases=dict(quick=150000, thorough=3000000),
    fuzz=dict(runs=2000000, maxlen=200),
    rule="Case = space {Dubins, symmetric Dubins, Reeds-Shepp} x turning radius (1 or log-uniform 0.25..4) x pose pair class {far 4..20 rho, within "
         "4 rho (CCC words win), same position / different heading, collinear (ahead or behind, same or opposite heading), on the library's long-path "
         "classification boundary +-1e-9..1e-2} x headings {uniform, multiples of pi/4 and pi/2, those +-1e-4 / +-1e-9}. Oracle: (i) Dubins distance = "
         "rho x shortest of the six canonical words computed by an independent harness solver that validates every candidate by forward integration; "
         "(ii) the curve sampled at 240 arc-length steps has chord <= step, heading change <= step/rho, no reversal for Dubins, ends at the target "
         "pose, and its polyline length matches the reported distance; (iii) distance >= straight-line distance; (iv) symmetric Dubins and Reeds-Shepp "
         "are symmetric, symmetric Dubins = min of both directions, Reeds-Shepp <= Dubins either way; (v) prefix law d(A, X_t) = t d(A,B). Slack "
         "1e-5 (rho + d); pairs closer than 1e-5 max(1,rho) with headings within 1e-5 and mismatches that a 2e-6 nudge of the pose explains are unjudged (counted). "
         "Non-trivial = pair in a boundary class or CCC-optimal. Distinct = consumed byte prefix.",
    technique="property-based differential testing against an independent six-word Dubins solver + curve integration + metamorphic relations",
    level_text="Generated pose pairs concentrated on classification boundaries are judged by an independent solver, by integrating the "
               "interpolated curve and by relations between the three spaces. Exploration-level.",
    level_note="Trusted: the harness's six-word solver (each candidate is validated by forward integration to the goal pose before it may "
               "count). Numerical grain of the library (DUBINS_EPS / RS_EPS = 1e-6) is honoured as stated in the rule.",
    assumptions=["poses closer than 1e-5 max(1, rho) with headings within 1e-5 are below the solvers' resolution and not judged"],
)

CHECKS["C15"] = dict(
    src="harness/C15_informed.cpp",
    cases=dict(quick=60000, thorough=1200000),
    fuzz=dict(runs=600000, maxlen=300),
    rule="Case = (40%) prolate-hyperspheroid level: dimension 2..8 x foci layout {axis aligned, diagonal, arbitrary, generic direction at a tiny separation 3e-9..1e-2; separated > 2e-9} x cost from "
         "1.0001 d_foci to 100 d_foci: 16 surface samples must have focal-distance sum = c within 1e-9, getPhsMeasure = analytic Gamma-function "
         "volume, interior samples inside; in 16% of these cases 20000 interior samples are mapped back with the harness's own inverse affine map and "
         "radius^n must be uniform (KS D < 0.03) with the axis coordinate balanced (< 7.5 sigma); (60%) sampler level: {PathLengthDirect, Rejection} x "
         "{R^2..R^8, SE2, SE3} x 1-2 starts x 1-3 goals (optionally near a bound; in 16% the first goal 3e-9..1e-2 from the first start) x cost {just above d, 1.01..2 d, 2..11 d, far beyond the bounds} x "
         "optional lower bound: every successful sample is in bounds, has heuristicSolnCost < c (and >= the lower bound), the heuristic equals the "
         "recomputed focal-distance sum, and getInformedMeasure equals the analytic sum of volumes (x rotation measure) capped by the space measure; "
         "in half of these cases the *same sampler object* is then asked for a second bound (smaller, or 1.3..3 times larger): samples obey it at once, and after a "
         "larger bound the states between the two bounds must be drawn again - asserted when >= half of the larger region (3000 uniformly drawn states) lies "
         "between the bounds and >= 40 of 64 samples succeeded (a correct sampler fails this with probability < 1e-12), also through the two-bound form. "
         "Non-trivial = thin spheroid (c < 2 d), region near a bound, >= 2 spheroids, or a uniformity test. Distinct = consumed byte prefix.",
    technique="property-based testing with analytic oracles (focal sum, Gamma-function volume) and a seeded Kolmogorov-Smirnov uniformity test",
    level_text="Membership, bounds, surface law and measure are checked exactly on generated configurations; the 'uniformly distributed / "
               "nothing excluded' clause is a statistical verdict (KS on 20000 samples, false-alarm probability < 1e-12), stated as such. "
               "Exploration-level.",
    level_note="Trusted: the harness's inverse affine map and volume formula. KS threshold 0.03 separates the unchanged tree (max D 0.0114 "
               "in the design-phase calibration) from the weakest calibrated mutant (0.048).",
    assumptions=["foci separated by more than 1e-6 (the statement requires > 1e-9)"],
)

CHECKS["C16"] = dict(
    src="harness/C16_constrained.cpp",
    cases=dict(quick=12000, thorough=200000),
    rule="Case = manifold {sphere S^(n-1) in R^3..R^5, torus in R^3, hyperplane, sphere cut by a plane (codimension 2)} with analytic (67%) or the "
         "numeric default Jacobian x space {Projected, Atlas, TangentBundle} x tolerance 1e-7..1e-3 x delta 0.02..0.3 x lambda 1.2..5 x on-manifold pair "
         "(near: within 2 delta; independent; antipodal) built from the harness's own parameterisation x optional obstacle cap x seed. Oracle: |F(x)| <= "
         "tolerance (harness evaluates F itself) for 6 uniform / near / Gaussian sampler outputs (radius / sigma from delta up to 60 / 30, i.e. many times the curvature radius), 4 interpolate outputs (t in {0, 1, 0.5, uniform}) and - "
         "Projected / Atlas only - every state of a successful discreteGeodesic, whose consecutive states are <= lambda*delta apart and whose last state "
         "is within delta of the target; in 39% of the cases RRT / RRTConnect / PRM plans on top and every vertex of a returned path must satisfy the "
         "constraint and the path must start at the start. Non-trivial = pair farther apart than 5 delta, codimension 2, or a planner path with >= 3 "
         "vertices. Distinct = consumed byte prefix.",
    technique="property-based testing of constrained state spaces with a harness-evaluated constraint residual, fork per case",
    level_text="Generated manifolds, parameters and on-manifold pairs; every state the constrained spaces hand out is re-checked against "
               "the constraint function evaluated by the harness. Exploration-level.",
    level_note="Trusted: the harness's manifold parameterisations and residual evaluation. Step / reach clauses are applied to the "
               "projection- and atlas-based spaces only, as the statement says.",
    assumptions=["an ompl::Exception from sampling / interpolation / anchoring is a clean rejection (counted)"],
)

CHECKS["C19"] = dict(
    src="harness/C19_threads.cpp",
    flavor="tsan",
    also=["C19P"],
    cases=dict(quick=1200, thorough=20000),
    rule="Part 1 (ThreadSanitizer build of the library and harness): case = operation mix {shared SpaceInformation: checkMotion + isValid on shared "
         "states; shared thread-safe GNAT: nearest / nearestK / nearestR; RNG and StateSpace construction / destruction / naming; shared "
         "ProblemDefinition: writers adding solutions while readers list them; terminate() from up to 4 other threads while RRT polls the "
         "condition, which is of a generated kind {non-terminating, direct function, function evaluated every 1..40 ms by the library's helper thread, "
         "timed with interval, or-combination of direct and periodic}; logging through a shared handler} x 2..16 threads released together from a barrier x 20..400 operations per thread. Oracle: no "
         "ThreadSanitizer report (happens-before race detection over the executed accesses), results equal the sequential answers, "
         "getCheckedMotionCount() == threads x calls with the right valid / invalid split, no lost or unsorted solution, every log message delivered, "
         "every thread sees eval() true right after its own terminate() returned, the planner returns after terminate(). Part 2 (ASan build, companion harness C19P = the C01 harness restricted to the planners that use "
         "threads internally): pRRT, pSBL, CForest with 2..6 threads, PRM / PRMstar / SPARS / SPARStwo (solution-checking thread), "
         "AnytimePathShortening, on generated C01 problems -> the complete C01 oracle on what is returned, no ASan report, no hang. Non-trivial "
         "= (part 1) at least two threads demonstrably overlapped (a thread entered while another was active); (part 2) as C01.",
    technique="randomized concurrent operation mixes under ThreadSanitizer + count / result oracles; threaded planners under the C01 path oracle",
    level_text="Schedules are sampled (thread counts, operation counts, barrier release, machine load), never enumerated; ThreadSanitizer's "
               "happens-before analysis generalises each executed access pair over all interleavings. Exploration-level, and weaker than for "
               "the other properties: absence of a report is evidence only for the access pairs that were executed.",
    level_note="Trusted: ThreadSanitizer (clang 14, history_size=7). Races reported inside a planner's own worker code are not part of the "
               "documented thread-safe surface; part 2 therefore judges the threaded planners by their results (C01 oracle, ASan, watchdog), "
               "not by TSan.",
    assumptions=["the harness's own shared state is atomic / barrier protected (the library's IterationTerminationCondition is not used across threads)"],
)
CHECKS["C03C"] = dict(
    src="harness/C02_control.cpp",
    cxxflags=["-DVF_C03C"],
    registered=False,
    cases=dict(quick=1500, thorough=20000),
    rule="companion of C03", technique="", level_text="", level_note="",
)
CHECKS["C01B"] = dict(
    src="harness/C01B_bespoke.cpp",
    registered=False,
    cases=dict(quick=1000, thorough=16000),
    rule="companion of C01", technique="", level_text="", level_note="",
)
CHECKS["C01P"] = dict(
    src="harness/C01_paths.cpp",
    cxxflags=["-DVF_C01P"],
    registered=False,
    cases=dict(quick=1000, thorough=20000),
    rule="companion of C01", technique="", level_text="", level_note="",
)
CHECKS["C19P"] = dict(
    src="harness/C01_paths.cpp",
    cxxflags=["-DVF_C19P"],
    registered=False,
    cases=dict(quick=600, thorough=10000),
    rule="companion of C19", technique="", level_text="", level_note="",
)
